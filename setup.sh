#!/bin/sh
# Offline setup: nothing to download.  Creates the scratch build dir and pre-builds the native replay / bounded-sweep crate against /repo
# (build output under /var/tmp, re-creatable; the Verus units are regenerated from /repo on every check).
set -e
cd "$(dirname "$0")"
mkdir -p build evidence replays
command -v verus >/dev/null || { echo "verus not on PATH"; exit 1; }
python3 -c "import sys; sys.path.insert(0,'vk'); import rustlex, extract, props"
python3 - <<'PY'
import sys; sys.path.insert(0, 'vk')
import replay_driver
print("replay crate built:", replay_driver.build())
PY
echo "setup ok"
