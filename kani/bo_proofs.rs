// Kani harnesses compiled INSIDE nundb::bo (cfg(kani) hook at the end of src/lib/bo.rs).
use super::*;

fn spec_sat_inc(x: i32) -> i32 { if x == i32::MAX { i32::MAX } else { x + 1 } }
/// the version rule of C02, written from the statement (same text as spec_next_version in contracts/store_core.vci)
fn spec_next_version(cv: i32, resolving: bool, ov: i32) -> i32 {
    if cv == IN_CONFLICT_RESOLUTION_KEY_VERSION && resolving { cv }
    else if resolving { spec_sat_inc(if ov == IN_CONFLICT_RESOLUTION_KEY_VERSION { cv } else { ov }) }
    else if ov == IN_CONFLICT_RESOLUTION_KEY_VERSION { ov }
    else if cv == -1 { spec_sat_inc(ov) }
    else if spec_sat_inc(cv) == -1 { 0 }   // never -1: that is what a removed key looks like on disk (C06)
    else { spec_sat_inc(cv) }
}

/// [C02.next-version] all i32 x i32 x bool, loop-free => complete; gives concrete counterexamples
#[kani::proof]
fn c02_next_version__next_version() {
    let cv: i32 = kani::any();
    let ov: i32 = kani::any();
    let resolving: bool = kani::any();
    let c = Change { value: String::new(), version: cv, opp_id: kani::any(), key: String::new(), resolve_conflict: resolving };
    let old = Value { value: String::new(), version: ov, opp_id: kani::any(), state: ValueStatus::Ok, value_disk_addr: 0, key_disk_addr: 0 };
    let r = c.next_version(&old);
    assert!(r == spec_next_version(cv, resolving, ov));
    kani::cover!(cv == i32::MAX);
    kani::cover!(resolving && ov == -2);
}

/// [C08.listing-hides-secure] filter_system_keys hides exactly the keys starting with "$$" from non-admin listings
#[kani::proof]
#[kani::unwind(6)]
fn c08_listing_hides_secure__filter_system_keys() {
    let list_system_keys: bool = kani::any();
    let len: usize = kani::any();
    kani::assume(len <= 3);
    let bytes: [u8; 3] = kani::any();
    let mut s = String::new();
    let mut i = 0;
    while i < 3 {
        if i < len {
            kani::assume(bytes[i] >= 0x20 && bytes[i] < 0x7f);
            s.push(bytes[i] as char);
        }
        i += 1;
    }
    let secure = len >= 2 && bytes[0] == b'$' && bytes[1] == b'$';
    let r = filter_system_keys(list_system_keys, &&s);
    assert!(r == (list_system_keys || !secure));
    kani::cover!(secure && !list_system_keys);
    kani::cover!(!secure && !list_system_keys);
}

/// codecs used by the oplog and the metadata file: to_u8 / From<u8> round trip (all 256 bytes) => complete
#[kani::proof]
fn c12_codec__replicate_opp() {
    let b: u8 = kani::any();
    let op = ReplicateOpp::from(b);
    let back = op.to_u8();
    if b <= 3 { assert!(back == b); } else { assert!(back == 0); }
    // every operation kind survives encode/decode
    assert!(ReplicateOpp::from(ReplicateOpp::Update.to_u8()).to_u8() == 0);
    assert!(ReplicateOpp::from(ReplicateOpp::Remove.to_u8()).to_u8() == 1);
    assert!(ReplicateOpp::from(ReplicateOpp::CreateDb.to_u8()).to_u8() == 2);
    assert!(ReplicateOpp::from(ReplicateOpp::Snapshot.to_u8()).to_u8() == 3);
}

/// [C09.kind-letters] r / w / i / x name the four kinds; any other letter means Read.  All chars => complete.
#[kani::proof]
fn c09_kind_letters__permission_kind_from_char() {
    let c: char = kani::any();
    let k = PermissionKind::from(c);
    match c {
        'r' => assert!(k == PermissionKind::Read),
        'w' => assert!(k == PermissionKind::Write),
        'i' => assert!(k == PermissionKind::Increment),
        'x' => assert!(k == PermissionKind::Remove),
        _ => assert!(k == PermissionKind::Read),
    }
}

/// [C06.status-codec] ValueStatus <-> i32 (metadata / key files): from(to_le_bytes(s)) == s for the four states; unknown codes decode to Ok
#[kani::proof]
fn c06_status_codec__value_status() {
    let v: i32 = kani::any();
    let s = ValueStatus::from(v);
    let back = i32::from_le_bytes(s.to_le_bytes());
    if v >= 0 && v <= 3 { assert!(back == v); } else { assert!(back == 0); }
    let c = ConsensuStrategy::from(v);
    let cb = i32::from_le_bytes(c.to_le_bytes());
    if v >= 0 && v <= 2 { assert!(cb == v); } else { assert!(cb == 0); }
}


/// [C06.live-version-never-deleted-marker] all i32, loop-free => complete; gives a concrete counterexample
#[kani::proof]
fn c06_live_version__live_version() {
    let v: i32 = kani::any();
    let r = live_version(v);
    assert!(r != -1);
    assert!(v == -1 || r == v);
    assert!(v != -1 || r == 0);
}

/// [C07.role-codec] the role word of a node (AtomicUsize) decodes to StartingUp / Primary / Secoundary for 0 / 1 / 2 and `as usize` gives the word back.  All values 0..=2 (any other
/// value is unreachable!() in the real code: the election unit proves no such value is ever stored) => complete
#[kani::proof]
fn c07_role_codec__cluster_role() {
    let v: usize = kani::any();
    kani::assume(v <= 2);
    let r = ClusterRole::from(v);
    assert!(r as usize == v);
    match v { 0 => assert!(r == ClusterRole::StartingUp), 1 => assert!(r == ClusterRole::Primary), _ => assert!(r == ClusterRole::Secoundary) }
    kani::cover!(v == 2);
}
