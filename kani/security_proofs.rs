// Kani harnesses compiled INSIDE nundb::security (cfg(kani) hook at the end of src/lib/security.rs),
// so they exercise the real, private functions.
use super::*;
use std::cell::Cell;
use std::sync::atomic::AtomicBool;

/// [C09.auth-gate] apply_if_auth runs its operation exactly once iff the session is admin-authenticated,
/// otherwise answers with an error and never invokes it.  Loop-free, full domain => complete.
#[kani::proof]
fn c09_auth_gate__apply_if_auth() {
    let flag: bool = kani::any();
    let auth = Arc::new(AtomicBool::new(flag));
    let calls = Cell::new(0u32);
    let r = apply_if_auth(&auth, &|| {
        calls.set(calls.get() + 1);
        Response::Ok {}
    });
    let is_ok = matches!(&r, Response::Ok {});
    let is_err = matches!(&r, Response::Error { .. });
    std::mem::forget(r);
    if flag {
        assert!(calls.get() == 1);
        assert!(is_ok);
    } else {
        assert!(calls.get() == 0);
        assert!(is_err);
    }
    kani::cover!(flag);
    kani::cover!(!flag);
    std::mem::forget(auth);
}

