// Kani harnesses compiled INSIDE nundb::db_ops (cfg(kani) hook at the end of src/lib/db_ops.rs)
use super::*;

const N: usize = 3;

/// a symbolic string of at most N bytes over the alphabet {a, b, *, $}
fn sym_str() -> (String, [u8; N], usize) {
    let len: usize = kani::any();
    kani::assume(len <= N);
    let bytes: [u8; N] = kani::any();
    let mut s = String::new();
    let mut i = 0;
    while i < N {
        if i < len {
            kani::assume(bytes[i] == b'a' || bytes[i] == b'b' || bytes[i] == b'*' || bytes[i] == b'$');
            s.push(bytes[i] as char);
        }
        i += 1;
    }
    (s, bytes, len)
}

// ---- reference semantics, written from the statement of C01 (byte arrays, no std string search)
fn strip_stars(p: &[u8; N], pl: usize) -> ([u8; N], usize) {
    let mut out = [0u8; N];
    let mut n = 0;
    let mut i = 0;
    while i < N {
        if i < pl && p[i] != b'*' { out[n] = p[i]; n += 1; }
        i += 1;
    }
    (out, n)
}
fn ref_has_at(k: &[u8; N], kl: usize, q: &[u8; N], ql: usize, at: usize) -> bool {
    if at + ql > kl { return false; }
    let mut j = 0;
    let mut ok = true;
    while j < N {
        if j < ql && k[at + j] != q[j] { ok = false; }
        j += 1;
    }
    ok
}
fn ref_match(k: &[u8; N], kl: usize, p: &[u8; N], pl: usize) -> bool {
    if pl > 0 && p[pl - 1] == b'*' {
        let (q, ql) = strip_stars(p, pl);
        ref_has_at(k, kl, &q, ql, 0)                       // prefix
    } else if pl > 0 && p[0] == b'*' {
        let (q, ql) = strip_stars(p, pl);
        ql <= kl && ref_has_at(k, kl, &q, ql, kl - ql)     // suffix
    } else {
        let mut at = 0;
        let mut found = false;
        while at <= N {
            if at <= kl && ref_has_at(k, kl, p, pl, at) { found = true; }
            at += 1;
        }
        found                                              // substring
    }
}

/// [C01.keys-pattern-choice] which matcher a `keys` pattern selects: `x*` = prefix, `*x` = suffix, otherwise substring.
/// BOUNDED: pattern at most 3 bytes over {a,b,*,$} (the function looks only at the first and last character).
#[kani::proof]
#[kani::unwind(8)]
fn c01_keys_pattern_choice__get_function_by_pattern() {
    let (p, pb, pl) = sym_str();
    let f = get_function_by_pattern(&p);
    let fa = f as usize;
    if pl > 0 && pb[pl - 1] == b'*' {
        assert!(fa == starts_with as usize);
    } else if pl > 0 && pb[0] == b'*' {
        assert!(fa == ends_with as usize);
    } else {
        assert!(fa == contains as usize);
    }
    kani::cover!(pl > 1 && pb[0] == b'*' && pb[pl - 1] != b'*');
    std::mem::forget(p);
}

