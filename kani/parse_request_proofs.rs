// Kani harnesses compiled INSIDE nundb::parse_request
use super::*;
