use vstd::prelude::*;
verus! {
#[verifier::external_body]
fn rd(x: u64) -> (r: Result<usize, ()>) { Ok(1) }

#[verifier::exec_allows_no_decreases_clause]
fn lp(n: u64) -> (r: u64)
    ensures r <= 10
{
    let mut c: u64 = 0;
    let mut p: u64 = n;
    while let Ok(i) = rd(p)
        invariant c <= 10
    {
        if c >= 10 { break; }
        c = c + 1;
        if i != 8 { break; }
        p = 3;
    }
    c
}
}
fn main(){}
