#![feature(allocator_api)]
use vstd::prelude::*;
use vstd::std_specs::hash::*;
use std::collections::HashMap;
verus! {
broadcast use vstd::std_specs::hash::group_hash_axioms;

pub assume_specification<'a, 'b, K, V, S, A, Q>[ HashMap::<K, V, S, A>::get_mut::<Q> ](m: &'a mut HashMap<K, V, S, A>, k: &'b Q) -> (r: Option<&'a mut V>)
    where
        A: std::alloc::Allocator,
        K: std::cmp::Eq + std::hash::Hash + std::borrow::Borrow<Q>,
        Q: std::hash::Hash + std::cmp::Eq + ?Sized,
        S: std::hash::BuildHasher,
    ensures
        obeys_key_model::<K>() && builds_valid_hashers::<S>() ==> (match r {
            Some(v) => contains_borrowed_key(old(m)@, k) && maps_borrowed_key_to_value(old(m)@, k, *v)
                && maps_borrowed_key_to_value(final(m)@, k, *final(v))
                && final(m)@.dom() == old(m)@.dom()
                && (forall|kk: K, vv: V| #![trigger old(m)@.contains_pair(kk, vv)] old(m)@.contains_pair(kk, vv) && !maps_borrowed_key_to_value(old(m)@, k, vv) ==> final(m)@.contains_pair(kk, vv)),
            None => !contains_borrowed_key(old(m)@, k) && final(m)@ == old(m)@,
        }),
;

pub struct RM { pub ack_count: usize }
pub struct DBS { pub pending_opps: HashMap<u64, RM> }
impl DBS {
    pub fn ackp(&mut self, opp_id: u64) -> (r: bool)
        requires obeys_key_model::<u64>(), builds_valid_hashers::<std::hash::RandomState>(),
          forall|k: u64| old(self).pending_opps@.contains_key(k) ==> (#[trigger] old(self).pending_opps@[k]).ack_count < 100,
        ensures old(self).pending_opps@.contains_key(opp_id) ==> r && final(self).pending_opps@[opp_id].ack_count == old(self).pending_opps@[opp_id].ack_count + 1,
            !old(self).pending_opps@.contains_key(opp_id) ==> !r && final(self).pending_opps@ == old(self).pending_opps@,
    {
        let mut pending_opps = (&mut self.pending_opps);
        match pending_opps.get_mut(&opp_id) {
            Some(replicated_opp) => {
                replicated_opp.ack_count = replicated_opp.ack_count + 1;
                true
            }
            None => false,
        }
    }
}
}
fn main(){}
