export VERIF_REPLAY_TARGET=/var/tmp/verif-replay-target-bg
for p in C01 C02 C03 C04 C05 C06 C07 C08 C09 C10 C12 C13 C14 C15 C16 C17 C19 C20; do
  ./check $p --tier thorough > thorough_$p.log 2>&1; echo "$p exit=$?"
  python3 -c "
import json,sys
e=json.load(open('evidence/$p.json'))
t=e['coverage']['thorough'].get('mutation_self_test',{})
print('$p', t.get('mutants'), t.get('caught'), [ (x['mutant'], x['by']) for x in t.get('survived',[])], [x['mutant'] for x in t.get('stale',[])])
"
done
