use vstd::prelude::*;
mod ax {
use vstd::prelude::*;
verus! {
pub uninterp spec fn spec_parse_i32(s: Seq<char>) -> Option<i32>;
pub uninterp spec fn spec_i32_to_string(n: i32) -> Seq<char>;
pub broadcast axiom fn axiom_string_ext(a: String, b: String) ensures (#[trigger] a@ == #[trigger] b@) ==> a == b;
pub broadcast axiom fn axiom_string_to_string(s: &String, r: String) ensures #[trigger] vstd::string::to_string_from_display_ensures::<String>(s, r) <==> r@ == s@;
}
}
use vstd::std_specs::hash::*;
use std::collections::HashMap;
verus! {
broadcast use {vstd::std_specs::hash::group_hash_axioms, ax::axiom_string_to_string, ax::axiom_string_ext, ax2::axiom_value_to_string, ax2::axiom_i32_to_string};

pub const IN_CONFLICT_RESOLUTION_KEY_VERSION: i32 = -2;
pub const TOKEN_KEY: &'static str = "$$token";
const INVALID_VERSION_ERROR: &'static str = "Invalid version!";

#[derive(Clone, PartialEq, Eq, Copy, Debug, Structural)]
pub enum ValueStatus { Ok = 0, Deleted = 1, Updated = 2, New = 3 }

#[derive(Clone, Debug)]
pub struct Value {
    pub value: String,
    pub version: i32,
    pub opp_id: u64,
    pub state: ValueStatus,
    pub value_disk_addr: u64,
    pub key_disk_addr: u64,
}
#[derive(Clone, Debug)]
pub struct Change {
    pub value: String,
    pub version: i32,
    pub opp_id: u64,
    pub key: String,
    pub resolve_conflict: bool,
}
pub enum Response {
    Value { key: String, value: String, version: i32 },
    Ok {},
    Set { key: String, value: String },
    Error { msg: String },
    VersionError { msg: String, key: String, old_version: i32, version: i32, old_value: Value, state: ValueStatus, change: Change, db: String },
}

pub struct Database {
    pub map: HashMap<String, Value>,
    pub name: String,
}

impl Database {
    pub fn get_value(&self, key: String) -> (r: Option<Value>)
        requires obeys_key_model::<String>(), builds_valid_hashers::<std::hash::RandomState>()
        ensures
            self.map@.contains_key(key) ==> r.is_some() && r.unwrap().version == self.map@[key].version && r.unwrap().state == self.map@[key].state && r.unwrap().value@ == self.map@[key].value@
                && r.unwrap().value_disk_addr == self.map@[key].value_disk_addr && r.unwrap().key_disk_addr == self.map@[key].key_disk_addr && r.unwrap().opp_id == self.map@[key].opp_id,
            !self.map@.contains_key(key) ==> r.is_none(),
    {
        let db = &self.map;
        if let Some(value) = db.get(&key.to_string()) {
            Some(Value {
                value: value.value.to_string(),
                version: value.version,
                state: value.state,
                value_disk_addr: value.value_disk_addr,
                key_disk_addr: value.key_disk_addr,
                opp_id: value.opp_id,
            })
        } else {
            None
        }
    }
    pub fn set_value_version(
        &mut self,
        key: &String,
        value: &String,
        new_version: i32,
        state: ValueStatus,
        value_disk_addr: u64,
        key_disk_addr: u64,
        opp_id: u64,
    )
        requires obeys_key_model::<String>(), builds_valid_hashers::<std::hash::RandomState>()
        ensures final(self).name == old(self).name,
             final(self).map@.dom() == old(self).map@.dom().insert(*key),
             forall|k: String| k != *key && old(self).map@.contains_key(k) ==> final(self).map@[k] == old(self).map@[k],
             final(self).map@[*key].version == new_version, final(self).map@[*key].value@ == value@, final(self).map@[*key].state == state,
             final(self).map@[*key].value_disk_addr == value_disk_addr, final(self).map@[*key].key_disk_addr == key_disk_addr, final(self).map@[*key].opp_id == opp_id,
    {
        {
            let db = &mut self.map;
            db.insert(
                key.clone(),
                Value {
                    value: value.clone(),
                    version: new_version,
                    state,
                    value_disk_addr, // will change on the store
                    key_disk_addr,   // will change on the store
                    opp_id,
                },
            );
        } // release the db
    }
}

impl Value {
    pub fn get_update_value_sate(&self) -> (r: ValueStatus)
        ensures r == (if self.state == ValueStatus::New { ValueStatus::New } else { ValueStatus::Updated })
    {
        if self.state == ValueStatus::New {
            ValueStatus::New
        } else {
            ValueStatus::Updated
        }
    }
    pub fn is_in_conflict_resolution(&self) -> (r: bool)
        ensures r == (self.version == IN_CONFLICT_RESOLUTION_KEY_VERSION)
    {
        self.version == IN_CONFLICT_RESOLUTION_KEY_VERSION
    }
}
pub open spec fn spec_next_version(c: Change, old: Value) -> int {
    if c.version == IN_CONFLICT_RESOLUTION_KEY_VERSION { c.version as int }
    else if c.resolve_conflict { (if old.version == IN_CONFLICT_RESOLUTION_KEY_VERSION { c.version } else { old.version }) + 1 }
    else if old.version == IN_CONFLICT_RESOLUTION_KEY_VERSION { old.version as int }
    else if c.version == -1 { old.version + 1 }
    else { c.version + 1 }
}
impl Change {
    pub fn allow_save_version(&self) -> (r: bool) ensures r == (self.version == IN_CONFLICT_RESOLUTION_KEY_VERSION) {
        self.keep_in_conflict_resolution()
    }
    pub fn keep_in_conflict_resolution(&self) -> (r: bool)
        ensures r == (self.version == IN_CONFLICT_RESOLUTION_KEY_VERSION)
    {
        self.version == IN_CONFLICT_RESOLUTION_KEY_VERSION
    }
    pub fn resolving_conflict(&self) -> (r: bool) ensures r == self.resolve_conflict {
        self.resolve_conflict
    }
    pub fn next_version(&self, old_value: &Value) -> (r: i32)
        requires self.version < i32::MAX, old_value.version < i32::MAX,
        ensures r == spec_next_version(*self, *old_value)
    {
        if self.keep_in_conflict_resolution() {
            self.version
        } else if self.resolving_conflict() {
            let source_version = if old_value.is_in_conflict_resolution() {
                self.version
            } else {
                old_value.version
            };
            source_version + 1
        } else if old_value.is_in_conflict_resolution() {
            old_value.version
        } else if self.version == -1 {
            old_value.version + 1
        } else {
            self.version + 1
        }
    }
}
impl Database {
    #[verifier::external_body]
    fn notify_watchers(&self, key: String, value: String, version: i32) { }

    pub fn set_value(&mut self, change: &Change) -> (r: Response)
        requires obeys_key_model::<String>(), builds_valid_hashers::<std::hash::RandomState>(),
            change.version < i32::MAX,
            forall|k: String| old(self).map@.contains_key(k) ==> (#[trigger] old(self).map@[k]).version < i32::MAX,
        ensures
            // refusal changes nothing
            (r is VersionError) ==> final(self).map@ == old(self).map@,
            // frame: other keys untouched
            forall|k: String| k != change.key ==> (final(self).map@.contains_key(k) == old(self).map@.contains_key(k)) && (old(self).map@.contains_key(k) ==> final(self).map@[k] == old(self).map@[k]),
            // absent key: always succeeds
            !old(self).map@.contains_key(change.key) ==> (r is Set) && final(self).map@[change.key].version == change.version + 1 && final(self).map@[change.key].value@ == change.value@,
            // existing key: CAS rule
            old(self).map@.contains_key(change.key) ==> (
                ((r is VersionError) <==> (spec_next_version(*change, old(self).map@[change.key]) <= old(self).map@[change.key].version && change.version != IN_CONFLICT_RESOLUTION_KEY_VERSION))
                && ((r is Set) ==> final(self).map@[change.key].version == spec_next_version(*change, old(self).map@[change.key]) && final(self).map@[change.key].value@ == change.value@)
            ),
            (r is Set) || (r is VersionError),
    {
        if let Some(old_version) = self.get_value(change.key.clone()) {
            let new_version = change.next_version(&old_version);
            if new_version <= old_version.version && !change.allow_save_version() {
                let state = old_version.get_update_value_sate();
                return Response::VersionError {
                    msg: String::from(INVALID_VERSION_ERROR),
                    old_version: old_version.version,
                    key: change.key.clone(),
                    version: change.version,
                    old_value: old_version.clone(),
                    change: change.clone(),
                    state: state,
                    db: self.name.clone(),
                };
            }
            let state = old_version.get_update_value_sate();
            self.set_value_version(
                &change.key,
                &change.value,
                new_version,
                state,
                old_version.value_disk_addr,
                old_version.key_disk_addr,
                change.opp_id,
            );
            self.notify_watchers(change.key.clone(), change.value.clone(), new_version);
        } else {
            let new_version = change.version + 1;
            //new key
            self.set_value_version(
                &change.key,
                &change.value,
                new_version,
                ValueStatus::New,
                0,
                0,
                change.opp_id,
            );
            // not in disk yet
            self.notify_watchers(change.key.clone(), change.value.clone(), new_version);
        }

        Response::Set {
            key: change.key.clone(),
            value: change.value.to_string(),
        }
    }
}


#[verifier::external_type_specification]
#[verifier::external_body]
pub struct ExParseIntError(std::num::ParseIntError);
#[verifier::external_body]
pub fn shim_i32_from_str_radix(src: &str, radix: u32) -> (r: Result<i32, std::num::ParseIntError>)
    ensures radix == 10 ==> (match crate::ax::spec_parse_i32(src@) { Some(n) => r == Ok::<i32, std::num::ParseIntError>(n), None => r is Err })
{ i32::from_str_radix(src, radix) }

#[verifier::external_body]
pub fn next_op_log_id() -> u64 { 0 }

impl From<String> for Value {
    fn from(value: String) -> (r: Value)
        ensures r.value@ == value@, r.version == 1, r.state == ValueStatus::New, r.value_disk_addr == 0, r.key_disk_addr == 0
    {
        Value {
            value,
            version: 1,
            opp_id: next_op_log_id(),
            state: ValueStatus::New,
            value_disk_addr: 0,
            key_disk_addr: 0,
        }
    }
}

impl From<&str> for Value {
    fn from(value: &str) -> (r: Value)
        ensures r.value@ == value@, r.version == 1, r.state == ValueStatus::New
    {
        Value::from(String::from(value))
    }
}

impl Database {
    pub fn inc_value(&mut self, key: String, inc: i32) -> (r: Response)
        requires obeys_key_model::<String>(), builds_valid_hashers::<std::hash::RandomState>(),
    {
        let (value, version) = {
            let mut db = (&mut self.map);
            match shim_i32_from_str_radix(
                &db.get(&key.to_string())
                    .unwrap_or(&Value::from("0"))
                    .to_string(),
                10,
            ) {
                Ok(current) => {
                    let next = (current + inc).to_string();
                    db.insert(key.clone(), Value::from(next.clone()));
                    (next, -1)
                }
                _ => {
                    return Response::Error {
                        msg: "Key is not numeric".to_string(),
                    }
                }
            }
        };

        self.notify_watchers(key.clone(), value.clone(), version);
        Response::Ok {}
    }
}

} // verus!
impl std::fmt::Display for Value {
    fn fmt(&self, f: &mut std::fmt::Formatter<'_>) -> std::fmt::Result {
        write!(f, "{}", self.value.to_string())
    }
}
mod ax2 {
use vstd::prelude::*;
verus! {
pub broadcast axiom fn axiom_value_to_string(v: &crate::Value, r: String) ensures #[trigger] vstd::string::to_string_from_display_ensures::<crate::Value>(v, r) <==> r@ == v.value@;
pub broadcast axiom fn axiom_i32_to_string(v: &i32, r: String) ensures #[trigger] vstd::string::to_string_from_display_ensures::<i32>(v, r) <==> r@ == crate::ax::spec_i32_to_string(*v);
}
}
fn main() {}
