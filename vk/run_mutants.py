"""developer helper: run the committed mutants of one property whose description contains <substr> through the property's Verus units
   usage: run_mutants.py <prop> [substr]"""
import sys, os, shutil
os.environ.setdefault("VERIF_BUILD", "/var/tmp/verif-build-mutants-%d" % os.getpid())   # generated units of mutated trees never touch /verif/build
sys.path.insert(0, os.path.dirname(os.path.abspath(__file__)))
import extract, mutants, verus_unit, props
from extract import AnchorLost
from verus_unit import Infra

def main():
    prop = sys.argv[1]; sub = sys.argv[2] if len(sys.argv) > 2 else ""
    cfg = props.PROPS[prop]
    scratch = "/var/tmp/verif-mutdev-%d" % os.getpid()
    real = extract.REPO
    try:
        for mut in mutants.M:
            (mp, what, rel, frm, to) = mut[:5]
            if mp != prop or sub not in what: continue
            shutil.rmtree(scratch, ignore_errors=True)
            shutil.copytree(os.path.join(real, "src"), os.path.join(scratch, "src"))
            path = os.path.join(scratch, rel); text = open(path).read()
            if text.count(frm) != 1: print("STALE", what); continue
            text = text.replace(frm, to)
            for (f2, t2) in zip(mut[5::2], mut[6::2]): text = text.replace(f2, t2)
            open(path, "w").write(text)
            extract.REPO = scratch; extract._sources.clear()
            res = []
            for un in cfg.get("units", []):
                try:
                    r = verus_unit.run_unit(un)
                except (AnchorLost, Infra) as e:
                    res.append("%s: INFRA %s" % (un, str(e)[:100])); continue
                hits = [f["obligation"] for f in r["failures"] if f["label"].startswith(prop + ".") or f["label"] == "proof-step"]
                if hits: res.append("%s: CAUGHT %s" % (un, hits[:3]))
                elif r["infra"]: res.append("%s: infra %s" % (un, r["infra"][0][:100]))
            print(what, "->", res or "SURVIVED")
    finally:
        extract.REPO = real; extract._sources.clear()
        shutil.rmtree(scratch, ignore_errors=True)
        shutil.rmtree(os.environ["VERIF_BUILD"], ignore_errors=True)
main()
