"""Mechanical extractor: /repo/src  +  contracts/<unit>.vc  ->  one Verus file.

The .vc file is the skeleton of the Verus file.  Every line that does not start with
`//@` is copied verbatim (spec functions, lemmas, shims).  `//@` directives pull the
REAL items out of /repo on every run:

  //@const  <file> <NAME>
  //@enum   <file> <Name> [derive+=A,B]
  //@struct <file> <Name> [keep=f1,f2,...]          (fields not listed are dropped; reported)
  //@fn     <file> <path> [ret=<name>] [mutself] [external] [nobody] [vis=pub]
      <requires / ensures / decreases lines; `// [Cnn.label]` comment lines label the clauses below them>
  //@rewrite `<from>` => `<to>` [xN]                 (inside a fn block: that body only)
  //@insert before|after|inv `<anchor>`              (ghost code spliced into the real body)
      <lines>
  //@end

<path> is `name` for a free fn, `Type::name` for an inherent method, `Trait@Type::name`
for a trait impl method.  Rewrites R1..R3 (log statements, lock elision, atomics) are
built in; every application is counted and reported.  Anything that cannot be located
raises AnchorLost, which the runner turns into exit 2 (never an alarm).
"""
import os, re, sys, json, difflib
from rustlex import lex, match_close, Tok, CODE

REPO = os.environ.get("VERIF_REPO", "/repo")


class AnchorLost(Exception):
    pass


# --------------------------------------------------------------------------- source files
class Source:
    def __init__(self, relpath, text=None, line_base=0):
        self.rel = relpath
        self.path = os.path.join(REPO, relpath)
        self.line_base = line_base   # a synthetic source (R10c: an expression wrapped as a function) reports the lines of the file it was cut from
        if text is not None:
            self.text = text
        else:
            try:
                self.text = open(self.path, encoding="utf-8").read()
            except OSError as e:
                raise AnchorLost("cannot read %s: %s" % (self.path, e))
        self.toks = lex(self.text)
        self.code = [k for k, t in enumerate(self.toks) if t.kind in CODE]
        self._line_starts = [0]
        for m in re.finditer("\n", self.text):
            self._line_starts.append(m.end())
        self._scan_items()

    def line_of(self, off):
        import bisect
        return bisect.bisect_right(self._line_starts, off) + self.line_base

    # ---- item scan: top level and inside impl blocks (skipping cfg(test) modules)
    def _scan_items(self):
        self.items = []  # dicts: kind, name, owner, start_tok, end_tok (inclusive), body_open
        self._scan_block(0, len(self.toks), owner=None)

    def _attr_start(self, k):
        """walk back from code token index k over attributes / doc comments; return token idx"""
        start = k
        j = k - 1
        while j >= 0:
            t = self.toks[j]
            if t.kind == "ws":
                j -= 1; continue
            if t.kind in ("lcom", "bcom") and (t.text.startswith("///") or t.text.startswith("/**")):
                start = j; j -= 1; continue
            if t.kind == "p" and t.text == "]":
                # find matching '[' backwards, then '#'
                depth, m = 0, j
                while m >= 0:
                    tt = self.toks[m]
                    if tt.kind == "p" and tt.text == "]": depth += 1
                    elif tt.kind == "p" and tt.text == "[":
                        depth -= 1
                        if depth == 0: break
                    m -= 1
                h = m - 1
                while h >= 0 and self.toks[h].kind == "ws": h -= 1
                if h >= 0 and self.toks[h].text == "#":
                    start = h; j = h - 1; continue
                break
            break
        return start

    def _scan_block(self, lo, hi, owner):
        toks = self.toks
        k = lo
        while k < hi:
            t = toks[k]
            if t.kind not in CODE:
                k += 1; continue
            if t.kind == "p" and t.text in "([{":
                # stray bracket at item level (e.g. attribute contents) -> skip it
                k = match_close(toks, k) + 1; continue
            if t.kind == "id" and t.text in ("fn", "struct", "enum", "const", "static", "impl", "mod", "trait", "type", "use", "macro_rules"):
                kw = t.text
                if kw == "const":
                    # `const fn` ?
                    nk = self._next_code(k + 1)
                    if toks[nk].text == "fn":
                        k = nk; continue
                # find end of item: first ';' or '{..}' at depth 0
                name_tok = self._next_code(k + 1)
                j = k + 1
                body_open = None
                while j < hi:
                    tj = toks[j]
                    if tj.kind == "p" and tj.text in "([":
                        j = match_close(toks, j) + 1; continue
                    if tj.kind == "p" and tj.text == "{":
                        body_open = j
                        j = match_close(toks, j); break
                    if tj.kind == "p" and tj.text == ";":
                        break
                    j += 1
                end = j
                start = self._attr_start(k)
                # visibility / qualifiers before the keyword
                b = k - 1
                while b >= 0 and (toks[b].kind == "ws" or (toks[b].kind == "id" and toks[b].text in ("pub", "async", "unsafe", "const", "extern"))
                                  or (toks[b].kind == "p" and toks[b].text in "()") or (toks[b].kind == "id" and toks[b].text in ("crate", "super"))):
                    b -= 1
                first = b + 1
                while toks[first].kind == "ws": first += 1
                start = min(start, self._attr_start(first))
                item = dict(kind=kw, owner=owner, start=start, kw=k, end=end, body_open=body_open)
                if kw == "impl":
                    hdr = "".join(x.text for x in toks[k + 1:body_open] if x.kind in CODE or x.kind == "ws").strip()
                    hdr = re.sub(r"\s+", " ", hdr)
                    hdr = re.sub(r"^<[^>]*>\s*", "", hdr)  # impl<T> ...
                    if " for " in hdr:
                        tr, ty = hdr.split(" for ", 1)
                        iowner = tr.strip() + "@" + ty.strip()
                    else:
                        iowner = hdr
                    item["name"] = iowner
                    self.items.append(item)
                    self._scan_block(body_open + 1, end, owner=iowner)
                elif kw == "mod":
                    item["name"] = toks[name_tok].text
                    attrs = self.text[toks[start].start:toks[k].start]
                    self.items.append(item)
                    if body_open is not None and "cfg(test)" not in attrs and "cfg(kani)" not in attrs:
                        self._scan_block(body_open + 1, end, owner=owner)
                else:
                    item["name"] = toks[name_tok].text
                    self.items.append(item)
                k = end + 1
                continue
            k += 1

    def _next_code(self, k):
        while self.toks[k].kind not in CODE:
            k += 1
        return k

    def find(self, kind, name, owner=None):
        hits = [it for it in self.items if it["kind"] == kind and it["name"] == name and it["owner"] == owner]
        if len(hits) != 1:
            raise AnchorLost("%s: expected exactly one `%s %s`%s, found %d" % (
                self.rel, kind, name, " in impl " + owner if owner else "", len(hits)))
        return hits[0]

    def text_of(self, a, b):
        """source text of tokens a..b inclusive"""
        return self.text[self.toks[a].start:self.toks[b].end]


_sources = {}


def source(rel):
    if rel not in _sources:
        _sources[rel] = Source(rel)
    return _sources[rel]


# --------------------------------------------------------------------------- rewrites
REMOVAL_IS_JUDGED = set()


class Counter(dict):
    """rule applications of one unit; while a function / arm is being extracted (`owner` set) they are also kept per function: the SHAPE of the function as the
    extraction rules saw it (which modelling rewrites applied, how often) - compared with a committed reference by the runner"""
    owner = None

    def add(self, k, n=1):
        self[k] = self.get(k, 0) + n
        if self.owner is not None:
            if not hasattr(self, "per_owner"): self.per_owner = {}
            d = self.per_owner.setdefault(self.owner, {})
            d[k] = d.get(k, 0) + n


def _norm_ws(s):
    return re.sub(r"\s+", "", s)


def toks_text(toks):
    return "".join(t.text for t in toks)


def rewrite_builtin(text, cnt, mutable=True):
    """R1 log statements, R2 lock elision, R3 atomics.  Token based: never touches
    strings or comments."""
    toks = lex(text)
    out = []
    k, n = 0, len(toks)

    def nxt(j):
        while j < n and toks[j].kind not in CODE: j += 1
        return j

    def seq_at(j, words):
        """match a sequence of code-token texts starting at token j (skipping ws/comments);
        return index after the last matched token or -1"""
        for w in words:
            j = nxt(j)
            if j >= n or toks[j].text != w: return -1
            j += 1
        return j

    while k < n:
        t = toks[k]
        # ---- R1: log::level!( ... ) [;]
        if t.kind == "id" and t.text == "log":
            j = seq_at(k + 1, [":", ":"])
            if j > 0:
                j2 = nxt(j)
                if j2 < n and toks[j2].text in ("trace", "debug", "info", "warn", "error"):
                    j3 = seq_at(j2 + 1, ["!"])
                    if j3 > 0:
                        j4 = nxt(j3)
                        if j4 < n and toks[j4].text in "([{":
                            close = match_close(toks, j4)
                            after = nxt(close + 1)
                            # statement or expression?  look at previous code token
                            p = len(out) - 1
                            while p >= 0 and out[p].kind not in CODE: p -= 1
                            prev = out[p].text if p >= 0 else "{"
                            if after < n and toks[after].text == ";" and prev in ("{", "}", ";"):
                                cnt.add("R1.log-stmt-deleted")
                                k = after + 1
                                # swallow the rest of the line if it is only whitespace
                                continue
                            cnt.add("R1.log-expr-to-unit")
                            out.append(Tok("p", "()", 0, 0))
                            k = close + 1
                            continue
        # ---- R2/R3 constructors: Mutex::new(x) / RwLock::new(x) / AtomicUsize::new(x) / AtomicBool::new(x) -> (x)
        if t.kind == "id" and t.text in ("Mutex", "RwLock", "AtomicUsize", "AtomicBool"):
            j = seq_at(k + 1, [":", ":", "new"])
            if j > 0:
                j2 = nxt(j)
                if j2 < n and toks[j2].text == "(":
                    # drop a leading std::sync:: / std::sync::atomic:: path already emitted
                    p = len(out) - 1
                    while p >= 0 and out[p].kind in CODE and out[p].text in (":", "std", "sync", "atomic"):
                        p -= 1
                    del out[p + 1:]
                    cnt.add("R2.lock-ctor-elided" if t.text in ("Mutex", "RwLock") else "R3.atomic-ctor-elided")
                    k = j2
                    continue
        # ---- R2: .read()/.write()/.lock() followed by .unwrap()/.expect(..)
        if t.kind == "p" and t.text == ".":
            j = nxt(k + 1)
            if j < n and toks[j].kind == "id" and toks[j].text in ("read", "write", "lock"):
                kind = toks[j].text
                j1 = seq_at(j + 1, ["(", ")", "."])
                if j1 > 0:
                    j2 = nxt(j1)
                    if j2 < n and toks[j2].text in ("unwrap", "expect"):
                        j3 = nxt(j2 + 1)
                        if j3 < n and toks[j3].text == "(":
                            close = match_close(toks, j3)
                            # the receiver expression: walk back over a path a.b.c / (*x).y
                            p = len(out) - 1
                            while p >= 0 and out[p].kind not in CODE: p -= 1
                            q = p
                            while q >= 0:
                                tq = out[q]
                                if tq.kind in ("id", "num") or (tq.kind == "p" and tq.text in ".:"):
                                    q -= 1; continue
                                if tq.kind == "p" and tq.text == ")":
                                    # balanced parens backwards
                                    depth = 0
                                    while q >= 0:
                                        if out[q].kind == "p" and out[q].text == ")": depth += 1
                                        elif out[q].kind == "p" and out[q].text == "(":
                                            depth -= 1
                                            if depth == 0: break
                                        q -= 1
                                    q -= 1; continue
                                if tq.kind in ("ws", "lcom", "bcom"):
                                    # allow line breaks inside a method chain: only if the next
                                    # code token (forward) is '.'
                                    f = q + 1
                                    while f <= p and out[f].kind not in CODE: f += 1
                                    if f <= p and out[f].text == ".":
                                        q -= 1; continue
                                break
                            recv_start = q + 1
                            while recv_start <= p and out[recv_start].kind not in CODE: recv_start += 1
                            recv = out[recv_start:p + 1]
                            del out[recv_start:]
                            borrow = "&mut " if (kind in ("write", "lock") and mutable) else "&"
                            out.append(Tok("p", "(" + borrow, 0, 0))
                            out.extend(recv)
                            out.append(Tok("p", ")", 0, 0))
                            cnt.add("R2.%s-lock-elided" % kind)
                            k = close + 1
                            continue
            # ---- R3: .load(Ordering::X) -> (nothing)
            if j < n and toks[j].kind == "id" and toks[j].text == "load":
                j1 = nxt(j + 1)
                if j1 < n and toks[j1].text == "(":
                    close = match_close(toks, j1)
                    inner = _norm_ws(toks_text(toks[j1 + 1:close]))
                    if re.fullmatch(r"(std::sync::atomic::)?Ordering::\w+", inner):
                        cnt.add("R3.atomic-load-to-read")
                        k = close + 1
                        continue
        out.append(t)
        k += 1
    return toks_text(out)


def rewrite_method_to_fn(text, method, fn, cnt):
    """R6: `<recv>.method(args)` / `<recv>.method::<T>(args)` -> `fn(<recv>, args)`  (token based, receiver = postfix chain before the dot)"""
    toks = lex(text)
    out, k, n = [], 0, len(toks)

    def nxt(j):
        while j < n and toks[j].kind not in CODE: j += 1
        return j
    mtoks = [t.text for t in lex(method) if t.kind in CODE]
    while k < n:
        t = toks[k]
        if t.kind == "p" and t.text == ".":
            j = nxt(k + 1)
            ok = True
            jj = j
            for w in mtoks:
                jj = nxt(jj)
                if jj >= n or toks[jj].text != w: ok = False; break
                jj += 1
            if ok:
                j2 = nxt(jj)
                if j2 < n and toks[j2].text == "(":
                    close = match_close(toks, j2)
                    p = len(out) - 1
                    while p >= 0 and out[p].kind not in CODE: p -= 1
                    q = p
                    while q >= 0:
                        tq = out[q]
                        if tq.kind in ("id", "num", "str") or (tq.kind == "p" and tq.text in ".:"):
                            q -= 1; continue
                        if tq.kind == "p" and tq.text in ")]":
                            depth = 0
                            while q >= 0:
                                if out[q].kind == "p" and out[q].text in ")]": depth += 1
                                elif out[q].kind == "p" and out[q].text in "([":
                                    depth -= 1
                                    if depth == 0: break
                                q -= 1
                            q -= 1; continue
                        if tq.kind in ("ws", "lcom", "bcom"):
                            f = q + 1
                            while f <= p and out[f].kind not in CODE: f += 1
                            if f <= p and out[f].text == ".":
                                q -= 1; continue
                        break
                    rs = q + 1
                    while rs <= p and out[rs].kind not in CODE: rs += 1
                    # a leading `&` / `*` / `!` belongs to the enclosing expression, not to the receiver
                    recv = out[rs:p + 1]
                    del out[rs:]
                    inner = toks_text(toks[j2 + 1:close])
                    inner = rewrite_method_to_fn(inner, method, fn, cnt)
                    args = inner.strip()
                    out.append(Tok("p", "%s(%s%s" % (fn, toks_text(recv), (", " + args) if args else ""), 0, 0))
                    out.append(Tok("p", ")", 0, 0))
                    cnt.add("R6.method `.%s(` => `%s(`" % (method, fn))
                    k = close + 1
                    continue
        out.append(t)
        k += 1
    return toks_text(out)


def _recv_start(out, p):
    """index in `out` (token list) where the receiver (postfix chain) that ends at out[p] starts"""
    q = p
    while q >= 0:
        tq = out[q]
        if tq.kind in ("id", "num", "str") or (tq.kind == "p" and tq.text in ".:"):
            q -= 1; continue
        if tq.kind == "p" and tq.text in ")]":
            depth = 0
            while q >= 0:
                if out[q].kind == "p" and out[q].text in ")]": depth += 1
                elif out[q].kind == "p" and out[q].text in "([":
                    depth -= 1
                    if depth == 0: break
                q -= 1
            q -= 1; continue
        if tq.kind in ("ws", "lcom", "bcom"):
            f = q + 1
            while f <= p and out[f].kind not in CODE: f += 1
            if f <= p and out[f].text == ".":
                q -= 1; continue
        break
    rs = q + 1
    while rs <= p and out[rs].kind not in CODE: rs += 1
    return rs


def rewrite_method_chain(text, methods, fn, cnt, where):
    """R11: `<recv>.m1(a1).m2(a2)...mN(aN)` (an iterator pipeline; a turbofish after a method name is dropped) -> `fn(<recv>, a1, a2, ..)`.
    The closure literals handed to the adapters stay verbatim; the adapters themselves are what the trusted shim `fn` stands for."""
    toks = lex(text)
    out, k, n = [], 0, len(toks)
    hits = 0

    def nxt(j):
        while j < n and toks[j].kind not in CODE: j += 1
        return j
    while k < n:
        t = toks[k]
        if t.kind == "p" and t.text == ".":
            j = k
            args = []
            ok = True
            for mth in methods:
                j = nxt(j)
                if j >= n or toks[j].text != ".": ok = False; break
                j = nxt(j + 1)
                if j >= n or toks[j].text != mth: ok = False; break
                j = nxt(j + 1)
                if j < n and toks[j].text == ":":     # turbofish  ::<...>
                    j = nxt(j + 1)
                    if j >= n or toks[j].text != ":": ok = False; break
                    j = nxt(j + 1)
                    if j >= n or toks[j].text != "<": ok = False; break
                    depth = 0
                    while j < n:
                        if toks[j].text == "<": depth += 1
                        elif toks[j].text == ">":
                            depth -= 1
                            if depth == 0: break
                        j += 1
                    j = nxt(j + 1)
                if j >= n or toks[j].text != "(": ok = False; break
                close = match_close(toks, j)
                a = toks_text(toks[j + 1:close]).strip()
                if a:
                    try:
                        a = rewrite_method_chain(a, methods, fn, cnt, where)   # a pipeline inside a closure handed to the pipeline
                    except AnchorLost:
                        pass
                    args.append(a)
                j = close + 1
            if ok:
                p = len(out) - 1
                while p >= 0 and out[p].kind not in CODE: p -= 1
                rs = _recv_start(out, p)
                recv = toks_text(out[rs:p + 1])
                del out[rs:]
                out.append(Tok("p", "%s(&%s%s)" % (fn, recv, "".join(", " + a for a in args)), 0, 0))   # `.iter()` borrows its receiver
                hits += 1
                k = j
                continue
        out.append(t)
        k += 1
    if not hits:
        raise AnchorLost("%s: chain `.%s()` found no site" % (where, "().".join(methods)))
    cnt.add("R11.chain `.%s(..)` => `%s(..)`" % ("(..).".join(methods), fn), hits)
    return toks_text(out)


def apply_closure_edit(new_body, a, b, typed, bind, clines, lno, where):
    """R11: the closure literal whose head `|pat|` spans new_body[a:b] gets a typed head and a contract; returns (text of the new closure literal, end offset of the old one)"""
    btoks = [t for t in lex(new_body) if t.kind in CODE and t.start >= b]
    if not btoks:
        raise AnchorLost("%s: closure has no body" % where)
    if btoks[0].text == "{":
        allt = lex(new_body)
        qi = next(idx for idx, t in enumerate(allt) if t.start == btoks[0].start)
        e = allt[match_close(allt, qi)].end
    else:
        depth, e = 0, None
        for t in btoks:
            if t.kind == "p" and t.text in "([{": depth += 1
            elif t.kind == "p" and t.text in ")]}":
                if depth == 0: e = t.start; break
                depth -= 1
            elif t.kind == "p" and t.text == "," and depth == 0:
                e = t.start; break
        if e is None:
            raise AnchorLost("%s: closure: end of body not found" % where)
    cb = new_body[btoks[0].start:e].rstrip()
    text = "\n".join(x[1] for x in clines)
    return typed + "\n/*@ghost-begin %d*/\n%s\n/*@ghost-end*/\n{ %s %s }" % (lno, text, bind, cb), e


def replace_all_calls(text, head, repl, cnt):
    """R6: every `<head>(...)` / `<head>!(...)` call is replaced by `repl` (arguments dropped)"""
    while True:
        btoks = lex(text)
        ftoks = [t for t in lex(head) if t.kind in CODE]
        code = [q for q, t in enumerate(btoks) if t.kind in CODE]
        hit = None
        for ci in range(len(code) - len(ftoks)):
            if all(btoks[code[ci + d]].text == ftoks[d].text for d in range(len(ftoks))):
                nx = code[ci + len(ftoks)]
                if btoks[nx].text in "([{":
                    hit = (btoks[code[ci]].start, btoks[match_close(btoks, nx)].end); break
        if hit is None:
            return text
        text = text[:hit[0]] + repl + text[hit[1]:]
        cnt.add("R6.all-calls `%s` => `%s`" % (head, repl))


def append_call_args(text, head, extra, cnt, norms=()):
    """R6c (a token made explicit): every call `<head>(args)` gets the extra argument(s) `extra` appended - however the arguments are spelled - and an argument that is exactly
    one of the `norms` left-hand sides (e.g. `&dbs`) is replaced by its right-hand side (`dbs`); a call that already ends with `extra` is left alone"""
    ftoks = [t.text for t in lex(head) if t.kind in CODE]
    xt = [t.text for t in lex(extra) if t.kind in CODE]
    pos = 0
    while True:
        btoks = lex(text)
        code = [q for q, t in enumerate(btoks) if t.kind in CODE]
        hit = None
        for ci in range(len(code) - len(ftoks)):
            if btoks[code[ci]].start < pos: continue
            if all(btoks[code[ci + d]].text == ftoks[d] for d in range(len(ftoks))):
                # not a definition (`fn head(`) and not a method / path continuation (`.head(` is fine, `x::head(` too)
                if ci > 0 and btoks[code[ci - 1]].text == "fn": continue
                nx = code[ci + len(ftoks)]
                if btoks[nx].text == "(":
                    hit = (nx, match_close(btoks, nx)); break
        if hit is None:
            return text
        op, cl = hit
        inner = [q for q in range(op + 1, cl) if btoks[q].kind in CODE]
        # split the arguments at depth 0
        args, cur, depth = [], [], 0
        for q in inner:
            t = btoks[q]
            if t.kind == "p" and t.text in "([{": depth += 1
            elif t.kind == "p" and t.text in ")]}": depth -= 1
            if t.kind == "p" and t.text == "," and depth == 0:
                args.append(cur); cur = []
            else:
                cur.append(q)
        if cur: args.append(cur)
        if args and [btoks[q].text for q in args[-1]] == xt:
            pos = btoks[cl].end; continue
        new_args = []
        for a in args:
            txt = text[btoks[a[0]].start:btoks[a[-1]].end]
            key = [btoks[q].text for q in a]
            for (frm, to) in norms:
                if key == [t.text for t in lex(frm) if t.kind in CODE]:
                    txt = to; break
            new_args.append(txt)
        new_args.append(extra)
        repl = "(" + ", ".join(new_args) + ")"
        text = text[:btoks[op].start] + repl + text[btoks[cl].end:]
        pos = btoks[op].start + len(repl)
        cnt.add("R6c.call-extra `%s(..)` += `%s`" % (head, extra))


def rewrite_call_through(text, fn_name, via, cnt, where):
    """R12b: `fn_name(A)(B)` -> `via(fn_name(A), B)`; at least one site must exist"""
    n_sites = 0
    pos = 0
    while True:
        btoks = lex(text)
        code = [q for q, t in enumerate(btoks) if t.kind in CODE]
        hit = None
        for ci in range(len(code) - 1):
            t = btoks[code[ci]]
            if t.start < pos or t.kind != "id" or t.text != fn_name or btoks[code[ci + 1]].text != "(":
                continue
            if ci > 0 and btoks[code[ci - 1]].text in (".", "fn"):
                continue
            c1 = match_close(btoks, code[ci + 1])
            nxt = [q for q in code if q > c1]
            if not nxt or btoks[nxt[0]].text != "(":
                continue
            c2 = match_close(btoks, nxt[0])
            hit = (t.start, btoks[c1].end, btoks[nxt[0]].end, btoks[c2].start, btoks[c2].end); break
        if hit is None:
            break
        (a, b, c, d, e) = hit
        inner = text[c:d].strip()
        new = "%s(%s%s%s)" % (via, text[a:b], ", " if inner else "", inner)
        text = text[:a] + new + text[e:]
        pos = a + len(via) + 1 + (b - a)
        n_sites += 1
        cnt.add("R12b.call-through `%s(..)(..)` => `%s(%s(..), ..)`" % (fn_name, via, fn_name))
    if n_sites == 0:
        raise AnchorLost("%s: no call through the value of `%s(..)` found" % (where, fn_name))
    return text


def model_leftovers(text, cnt):
    """R6b, applied last: what the unit's own rules left of constructs Verus ACCEPTS without giving them a meaning gets the prelude's model, so that a harmless
    re-spelling does not turn into "any value":  String::from(x) -> prelude_string_from(x) (same characters; x must be a &str - anything else no longer type-checks: INFRA)"""
    toks = lex(text)
    out, k, n, hits, hits2, hits3 = [], 0, len(toks), 0, 0, 0
    code = [q for q, t in enumerate(toks) if t.kind in CODE]
    pos = {q: i for i, q in enumerate(code)}
    while k < n:
        t = toks[k]
        if t.kind == "id" and t.text == "String" and k in pos:
            i = pos[k]
            nxt = [toks[code[i + d]].text if i + d < len(code) else "" for d in range(1, 5)]
            prev = toks[code[i - 1]].text if i > 0 else ""
            if nxt[:4] == [":", ":", "from", "("] and prev not in (":", "."):
                out.append(Tok("id", "prelude_string_from", 0, 0))
                k = code[i + 4]   # continue at `(`
                hits += 1
                continue
        # format!("text without placeholders") is that text
        if t.kind == "id" and t.text == "format" and k in pos:
            i = pos[k]
            nx = [toks[code[i + d]] if i + d < len(code) else None for d in range(1, 5)]
            if all(nx) and nx[0].text == "!" and nx[1].text == "(" and nx[2].kind == "str" and nx[3].text == ")" and "{" not in nx[2].text:
                out.append(Tok("id", "prelude_string_from(%s)" % nx[2].text, 0, 0))
                k = code[i + 4] + 1
                hits2 += 1
                continue
        # `<postfix expr> == None` / `!= None` is is_none() / is_some()
        if t.kind == "p" and t.text in ("=", "!") and k in pos:
            i = pos[k]
            n1 = toks[code[i + 1]] if i + 1 < len(code) else None
            n2 = toks[code[i + 2]] if i + 2 < len(code) else None
            pv = toks[code[i - 1]] if i > 0 else None
            if (n1 is not None and n1.text == "=" and n1.start == t.start + 1 and n2 is not None and n2.kind == "id" and n2.text == "None"
                    and pv is not None and (pv.kind == "id" or pv.text in (")", "]"))):
                while out and out[-1].kind not in CODE: out.pop()
                out.append(Tok("p", ".is_none()" if t.text == "=" else ".is_some()", 0, 0))
                k = code[i + 2] + 1
                hits3 += 1
                continue
        out.append(t)
        k += 1
    if hits:
        cnt.add("R6b.String::from => prelude_string_from", hits)
    if hits2:
        cnt.add("R6b.format!(literal) => prelude_string_from(literal)", hits2)
    if hits3:
        cnt.add("R6b.`== None` / `!= None` => is_none() / is_some()", hits3)
    return toks_text(out)


def rewrite_types(text, cnt):
    """R2/R3 on field types: RwLock<T> / Mutex<T> -> T ; AtomicUsize -> usize ; AtomicBool -> bool"""
    toks = lex(text)
    out, k, n = [], 0, len(toks)
    while k < n:
        t = toks[k]
        if t.kind == "id" and t.text in ("RwLock", "Mutex"):
            j = k + 1
            while j < n and toks[j].kind == "ws": j += 1
            if j < n and toks[j].text == "<":
                depth, m = 0, j
                while m < n:
                    if toks[m].text == "<": depth += 1
                    elif toks[m].text == ">":
                        depth -= 1
                        if depth == 0: break
                    m += 1
                # drop a leading std::sync:: path
                p = len(out) - 1
                while p >= 0 and (out[p].kind == "ws" or out[p].text in (":", "std", "sync")):
                    if out[p].kind == "ws": break
                    p -= 1
                del out[p + 1:]
                inner = rewrite_types(toks_text(toks[j + 1:m]), cnt)
                out.append(Tok("p", inner, 0, 0))
                cnt.add("R2.lock-type-elided")
                k = m + 1
                continue
        if t.kind == "id" and t.text == "AtomicUsize":
            out.append(Tok("id", "usize", 0, 0)); cnt.add("R3.atomic-type"); k += 1; continue
        if t.kind == "id" and t.text == "AtomicBool":
            out.append(Tok("id", "bool", 0, 0)); cnt.add("R3.atomic-type"); k += 1; continue
        out.append(t); k += 1
    return toks_text(out)


def apply_literal_rewrite(text, frm, to, expect, cnt, where):
    """whitespace-insensitive, token-boundary-safe literal replacement on code (strings are
    compared as whole tokens)."""
    toks = lex(text)
    ftoks = [t for t in lex(frm) if t.kind in CODE]
    if not ftoks:
        raise AnchorLost("%s: empty rewrite pattern" % where)
    code = [k for k, t in enumerate(toks) if t.kind in CODE]
    hits = []
    i = 0
    # a pattern token spelled __ID1__ .. __ID9__ matches any ONE identifier (a renamed local keeps the rewrite applicable); the same name in
    # the replacement stands for the identifier that was matched
    def tok_match(t, f, binds):
        if re.fullmatch(r"__ID\d__", f.text):
            if t.kind != "id":
                return False
            if f.text in binds and binds[f.text] != t.text:
                return False
            binds[f.text] = t.text
            return True
        # __NUM1__ .. __NUM9__ matches any ONE numeric literal (a retuned constant keeps the rewrite applicable - and is then judged by the contract)
        if re.fullmatch(r"__NUM\d__", f.text):
            if t.kind != "num":
                return False
            if f.text in binds and binds[f.text] != t.text:
                return False
            binds[f.text] = t.text
            return True
        return t.text == f.text
    hit_binds = []
    while i + len(ftoks) <= len(code):
        binds = {}
        if all(tok_match(toks[code[i + d]], ftoks[d], binds) for d in range(len(ftoks))):
            hits.append((code[i], code[i + len(ftoks) - 1])); hit_binds.append(binds)
            i += len(ftoks)
        else:
            i += 1
    if expect is not None and expect >= 0 and len(hits) != expect:
        raise AnchorLost("%s: rewrite `%s` expected %d site(s), found %d" % (where, frm, expect, len(hits)))
    if expect is None and not hits:
        raise AnchorLost("%s: rewrite `%s` found no site" % (where, frm))
    out, last = [], 0
    for (a, b), binds in zip(hits, hit_binds):
        rep = to
        for name, val in binds.items():
            rep = rep.replace(name, val)
        out.append(toks_text(toks[last:a])); out.append(rep); last = b + 1
    out.append(toks_text(toks[last:]))
    cnt.add("R6.rewrite `%s` => `%s`" % (frm, to), len(hits))
    return "".join(out)


def find_anchor(text, anchor, where):
    """token-wise search of `anchor` in text; must be unique; returns (start_off, end_off)"""
    toks = lex(text)
    atoks = [t for t in lex(anchor) if t.kind in CODE]
    code = [k for k, t in enumerate(toks) if t.kind in CODE]
    hits = []
    for i in range(0, len(code) - len(atoks) + 1):
        if all(toks[code[i + d]].text == atoks[d].text for d in range(len(atoks))):
            hits.append((toks[code[i]].start, toks[code[i + len(atoks) - 1]].end))
    if len(hits) != 1:
        raise AnchorLost("%s: anchor `%s` found %d times (need exactly 1)" % (where, anchor, len(hits)))
    return hits[0]


def clone_spec(txt, name, cnt):
    """R5: `Clone` in the derive list -> external_body `impl Clone` with the trusted spec r == *self"""
    m = re.search(r"#\[derive\(([^)]*)\)\]", txt)
    if not m or "Clone" not in [x.strip() for x in m.group(1).split(",")]:
        raise AnchorLost("clonespec: %s does not derive Clone" % name)
    have = [x.strip() for x in m.group(1).split(",") if x.strip() != "Clone"]
    txt = txt[:m.start(1)] + ", ".join(have) + txt[m.end(1):]
    txt = txt.replace("#[derive()]", "")
    txt += ("\nimpl Clone for %s {\n    // [trusted] stands for #[derive(Clone)]: the clone is an equal value\n"
            "    #[verifier::external_body]\n    fn clone(&self) -> (r: Self) ensures r == *self { unimplemented!() }\n}" % name)
    cnt.add("R5.derive-clone-to-trusted-impl")
    return txt


# --------------------------------------------------------------------------- .vc processing
class Unit:
    def __init__(self, vc_path):
        self.vc_path = vc_path
        self.name = os.path.splitext(os.path.basename(vc_path))[0]
        self.lines = []      # generated lines
        self.origin = []     # per generated line: dict(owner, label, kind, src)
        self.counts = Counter()
        self.functions = []  # dicts: path, file, line, external, labels
        self.dropped = []    # human readable list of what the extraction dropped
        self.lost = {}       # functions / arms whose extraction failed (anchor lost): emitted without body resp. left out; name -> reason
        self.diffs = {}
        self.unit_rewrites = []
        self.unit_method_shims = []
        self.unit_call_repl = []
        self.unit_call_extra = []
        self.unit_sig_rewrites = []

    def _snapshot(self):
        po = getattr(self.counts, "per_owner", {})
        return (len(self.lines), len(self.origin), len(self.functions), len(self.dropped), dict(self.counts), {k: dict(v) for k, v in po.items()}, dict(self.diffs))

    def _restore(self, snap):
        (nl, no, nf, nd, counts, po, diffs) = snap
        del self.lines[nl:]; del self.origin[no:]; del self.functions[nf:]; del self.dropped[nd:]
        self.counts.clear(); self.counts.update(counts); self.counts.per_owner = po; self.counts.owner = None
        self.diffs = diffs

    def emit(self, text, owner, label, kind, src=None):
        for ln in text.split("\n"):
            self.lines.append(ln)
            self.origin.append(dict(owner=owner, label=label, kind=kind, src=src))

    def _load(self, path, nolabels=False):
        """read a .vc / .vci file, splicing `//@include <file> [nolabels]` recursively"""
        out = []
        for ln in open(path, encoding="utf-8").read().split("\n"):
            if ln.startswith("//@include"):
                parts = ln.split()
                inc = os.path.join(os.path.dirname(path), parts[1])
                out += self._load(inc, nolabels or "nolabels" in parts[2:])
                continue
            if nolabels:
                # an included fragment whose obligations are counted by another unit: labels are blanked
                # (kept, but marked with ~ so that a failure is still attributed to the right clause)
                ln = re.sub(r"^(\s*//\s*)\[([^\]]+)\]", lambda m: m.group(1) + "[" + ",".join("~" + x.strip().lstrip("~") for x in m.group(2).split(",")) + "]", ln)
            out.append(ln)
        return out

    def build(self):
        vc = self._load(self.vc_path)
        i = 0
        raw_owner, raw_label = None, None
        while i < len(vc):
            ln = vc[i]
            if not ln.startswith("//@"):
                m = re.match(r"\s*//\s*\[([^\]]*)\]", ln)
                if m:
                    raw_label = m.group(1).strip() or None
                m2 = re.search(r"\bfn\s+(\w+)", ln)
                if m2 and not ln.lstrip().startswith("//"):
                    raw_owner = m2.group(1)
                self.emit(ln, raw_owner, raw_label, "raw", src="%s:%d" % (os.path.basename(self.vc_path), i + 1))
                if ln.startswith("}"):
                    raw_label = None
                i += 1
                continue
            parts = ln[3:].split()
            d = parts[0] if parts else ""
            if d in ("unit", "props", "note", "expect-labels"):
                i += 1; continue
            if d == "unit-method-shim":
                m = re.match(r"//@unit-method-shim\s+`(.*?)`\s*=>\s*`(.*?)`\s*$", ln)
                self.unit_method_shims.append((m.group(1), m.group(2))); i += 1; continue
            if d == "unit-replace-calls":
                m = re.match(r"//@unit-replace-calls\s+`(.*?)`\s*=>\s*`(.*?)`\s*$", ln)
                self.unit_call_repl.append((m.group(1), m.group(2))); i += 1; continue
            if d == "unit-call-extra":
                m = re.match(r"//@unit-call-extra\s+`(.*?)`\s*\+=\s*`(.*?)`((?:\s+norm\s+`.*?`\s*=>\s*`.*?`)*)\s*$", ln)
                if not m:
                    raise AnchorLost("%s:%d: bad //@unit-call-extra" % (self.vc_path, i + 1))
                norms = re.findall(r"norm\s+`(.*?)`\s*=>\s*`(.*?)`", m.group(3) or "")
                self.unit_call_extra.append((m.group(1), m.group(2), norms)); i += 1; continue
            if d == "unit-sig-rewrite":
                m = re.match(r"//@unit-sig-rewrite\s+`(.*?)`\s*=>\s*`(.*?)`\s*$", ln)
                self.unit_sig_rewrites.append((m.group(1), m.group(2))); i += 1; continue
            if d == "unit-rewrite":
                self.unit_rewrites.append(_parse_rewrite(ln, self.vc_path, i))
                i += 1; continue
            if d == "const":
                self._do_const(parts[1], parts[2]); i += 1; continue
            if d == "enum":
                self._do_enum(parts[1], parts[2], parts[3:]); i += 1; continue
            if d == "struct":
                self._do_struct(parts[1], parts[2], parts[3:]); i += 1; continue
            if d == "impl":
                self._do_impl(parts[1], " ".join(parts[2:])); i += 1; continue
            if d == "arm":
                j = i + 1
                block = []
                while j < len(vc) and vc[j].strip() != "//@end":
                    block.append((j + 1, vc[j])); j += 1
                if j >= len(vc):
                    raise AnchorLost("%s:%d: //@arm without //@end" % (self.vc_path, i + 1))
                # options whose value contains blanks are written between backticks: params=`a: T, b: U` ret=`R`
                qopts = ["%s=%s" % (mq.group(1), mq.group(2)) for mq in re.finditer(r"(\w+)=`(.*?)`", ln)]
                plain = re.sub(r"\w+=`.*?`", "", ln)[3:].split()
                snap = self._snapshot()
                try:
                    self._do_arm(plain[1], plain[2], plain[3], plain[4:] + qopts, block)
                    if self.functions and self.functions[-1]["path"] in FORCE_LOST:
                        raise AnchorLost("body refused by the verifier: %s" % FORCE_LOST[self.functions[-1]["path"]])
                except AnchorLost as e:
                    # the extraction failure stays local: the arm is left out (nothing calls an arm), the rest of the unit is verified, and the runner reports the
                    # properties that depend on this arm as undecided
                    self._restore(snap)
                    self.lost["arm:" + plain[3]] = dict(reason=str(e), labels=sorted(set(x.strip() for _l, bl in block for m in re.finditer(r"\[((?:C\d+\.[^\],]+(?:,\s*)?)+)\]", bl) for x in m.group(1).split(","))))
                i = j + 1
                raw_label = None
                continue
            if d == "fn":
                j = i + 1
                block = []
                while j < len(vc) and vc[j].strip() != "//@end":
                    block.append((j + 1, vc[j])); j += 1
                if j >= len(vc):
                    raise AnchorLost("%s:%d: //@fn without //@end" % (self.vc_path, i + 1))
                snap = self._snapshot()
                try:
                    if parts[2] in FORCE_LOST and "external" not in parts[3:]:
                        raise AnchorLost("body refused by the verifier: %s" % FORCE_LOST[parts[2]])
                    self._do_fn(parts[1], parts[2], parts[3:], block)
                except AnchorLost as e:
                    if "external" in parts[3:]:
                        raise
                    # the extraction failure stays local: the function is emitted with its contract and WITHOUT its body (trusted, like an external), so that its callers
                    # and the rest of the unit are still verified; the runner reports the properties that depend on it as undecided
                    self._restore(snap)
                    self._do_fn(parts[1], parts[2], parts[3:] + ["external"], block)
                    self.lost[parts[2]] = dict(reason=str(e), labels=sorted(set(x.strip() for _l, bl in block for m in re.finditer(r"\[((?:C\d+\.[^\],]+(?:,\s*)?)+)\]", bl) for x in m.group(1).split(","))))
                i = j + 1
                raw_label = None
                continue
            raise AnchorLost("%s:%d: unknown directive %s" % (self.vc_path, i + 1, d))
        return "\n".join(self.lines) + "\n"

    # ---- items
    def _do_const(self, rel, name):
        s = source(rel)
        it = s.find("const", name)
        txt = s.text_of(it["start"], it["end"])
        self.emit(txt, name, None, "item", src="%s:%d" % (rel, s.line_of(s.toks[it["kw"]].start)))
        self.counts.add("items.const")

    def _do_enum(self, rel, name, opts):
        s = source(rel)
        it = s.find("enum", name)
        txt = s.text_of(it["start"], it["end"])
        add = [o.split("=", 1)[1] for o in opts if o.startswith("derive+=")]
        if add:
            m = re.search(r"#\[derive\(([^)]*)\)\]", txt)
            if not m:
                txt = "#[derive(%s)]\n" % add[0] + txt
            else:
                have = [x.strip() for x in m.group(1).split(",")]
                extra = [x for x in add[0].split(",") if x not in have]
                txt = txt[:m.start(1)] + ", ".join(have + extra) + txt[m.end(1):]
            self.counts.add("R5.derive-added")
        kv = [o.split("=", 1)[1].split(",") for o in opts if o.startswith("keepvariants=")]
        if kv:
            toks = lex(txt)
            ob = next(k for k, t in enumerate(toks) if t.text == "{")
            cb = match_close(toks, ob)
            variants, cur, depth = [], [], 0
            for t in toks[ob + 1:cb]:
                if t.kind == "p" and t.text in "({[": depth += 1
                if t.kind == "p" and t.text in ")}]": depth -= 1
                if t.kind == "p" and t.text == "," and depth == 0:
                    variants.append(cur); cur = []
                else:
                    cur.append(t)
            if any(t.kind in CODE for t in cur): variants.append(cur)
            kept = []
            for vts in variants:
                vname = next((t.text for t in vts if t.kind == "id"), None)
                if vname in kv[0]:
                    kept.append(toks_text(vts).strip("\n"))
                else:
                    self.dropped.append("enum %s: variant `%s` dropped (not used by this unit)" % (name, vname))
            txt = toks_text(toks[:ob + 1]) + "\n" + ",\n".join(kept) + ",\n}"
            txt = re.sub(r"#\[derive\([^)]*\)\]\s*", "", txt)
        if "clonespec" in opts:
            txt = clone_spec(txt, name, self.counts)
        self.emit(txt, name, None, "item", src="%s:%d" % (rel, s.line_of(s.toks[it["kw"]].start)))
        self.counts.add("items.enum")

    def _do_struct(self, rel, name, opts):
        s = source(rel)
        it = s.find("struct", name)
        txt = s.text_of(it["start"], it["end"])
        keep = [o.split("=", 1)[1].split(",") for o in opts if o.startswith("keep=")]
        add = [o.split("=", 1)[1] for o in opts if o.startswith("derive+=")]
        if keep:
            keep = keep[0]
            # field-wise filter of `{ ... }`
            toks = lex(txt)
            ob = next(k for k, t in enumerate(toks) if t.text == "{")
            cb = match_close(toks, ob)
            fields, cur, depth = [], [], 0
            for t in toks[ob + 1:cb]:
                if t.kind == "p" and t.text in "(<[{": depth += 1
                if t.kind == "p" and t.text in ")>]}": depth -= 1
                if t.kind == "p" and t.text == "," and depth == 0:
                    fields.append(cur); cur = []
                else:
                    cur.append(t)
            if any(t.kind in CODE for t in cur): fields.append(cur)
            kept, seen = [], []
            for f in fields:
                ids = [t.text for t in f if t.kind == "id"]
                fname = next((x for x in ids if x not in ("pub", "crate")), None)
                seen.append(fname)
                if fname in keep:
                    kept.append(toks_text(f).strip("\n"))
                else:
                    self.dropped.append("struct %s: field `%s` dropped" % (name, fname))
                    self.counts.add("struct-field-dropped")
            for kf in keep:
                if kf not in seen:
                    raise AnchorLost("%s: struct %s has no field `%s`" % (rel, name, kf))
            txt = toks_text(toks[:ob + 1]) + "\n" + ",\n".join(kept) + ",\n}"
        txt = rewrite_types(txt, self.counts)
        for o in opts:
            if o.startswith("retype="):
                frm, to = o.split("=", 1)[1].split("=>")
                if frm not in txt:
                    raise AnchorLost("%s: struct %s: retype `%s` not found" % (rel, name, frm))
                txt = txt.replace(frm, to)
                self.counts.add("R2b.arc-of-interior-mutable-state-elided")
                self.dropped.append("struct %s: field type `%s` -> `%s` (the Arc only shares interior-mutable state; sequential semantics)" % (name, frm, to))
        if add:
            m = re.search(r"#\[derive\(([^)]*)\)\]", txt)
            if m:
                have = [x.strip() for x in m.group(1).split(",")]
                extra = [x for x in add[0].split(",") if x not in have]
                txt = txt[:m.start(1)] + ", ".join(have + extra) + txt[m.end(1):]
            else:
                txt = "#[derive(%s)]\n" % add[0] + txt
        if "clonespec" in opts:
            txt = clone_spec(txt, name, self.counts)
        self.emit(txt, name, None, "item", src="%s:%d" % (rel, s.line_of(s.toks[it["kw"]].start)))
        self.counts.add("items.struct")

    def _do_impl(self, rel, name):
        """whole impl block verbatim (used OUTSIDE verus!{} for Display / PartialEq impls the
        extracted code needs in order to type-check; such impls are not verified)"""
        s = source(rel)
        it = s.find("impl", name)
        txt = rewrite_builtin(s.text_of(it["start"], it["end"]), self.counts)
        self.emit(txt, name, None, "item-unverified", src="%s:%d" % (rel, s.line_of(s.toks[it["kw"]].start)))
        self.dropped.append("impl %s (%s:%d): emitted verbatim outside verus!{} - compiled, NOT verified" % (
            name, rel, s.line_of(s.toks[it["kw"]].start)))
        self.counts.add("items.impl-unverified")

    # ---- one arm of a `match request.clone() { Request::V {..} => <expr>, ... }` dispatcher, as a function (rule R10)
    def _do_arm(self, rel, fn_name, variant, opts, block):
        self.counts.owner = "arm:" + variant
        n_before = len(self.functions)
        try:
            return self._do_arm_inner(rel, fn_name, variant, opts, block)
        finally:
            self.counts.owner = None
            po = getattr(self.counts, "per_owner", {})
            if len(self.functions) > n_before and ("arm:" + variant) in po:
                po[self.functions[-1]["path"]] = po.pop("arm:" + variant)   # filed under the name of the generated function (arm_x / op_x)

    def _do_arm_inner(self, rel, fn_name, variant, opts, block):
        """R10: the arm `Request::<variant> { bindings } => <expr>` of fn <fn_name> becomes
              fn arm_<variant><F: Fn..>(bindings.., dbs: &Arc<Databases>, client: &Client, opp: &F) -> (r: Response) { <expr> }
        where the closure literal handed to the guard (argument number `closure=N` of the guard call) is replaced by the
        abstract closure `opp`.  The arm's guard call, its key argument and its PermissionKind stay verbatim."""
        s = source(rel)
        it = s.find("fn", fn_name, None)
        toks = s.toks
        lo, hi = it["body_open"], it["end"]
        code = [k for k in range(lo, hi) if toks[k].kind in CODE]
        at = next((o.split("=", 1)[1] for o in opts if o.startswith("at=")), None)
        if at is not None:
            # R10c: not an arm but the EXPRESSION of fn <fn_name> that starts with the token sequence `at` (e.g. `match dbs.get_role()`): a `match` / `if` / block expression up
            # to its closing brace becomes the body of fn <variant>(params=..) -> ret=..; the enclosing function's locals it uses become the parameters named in params=
            atoks = [t.text for t in lex(at) if t.kind in CODE]
            hits = [ci for ci in range(len(code) - len(atoks) + 1) if all(toks[code[ci + d]].text == atoks[d] for d in range(len(atoks)))]
            if len(hits) != 1:
                raise AnchorLost("%s: fn %s: expression anchor `%s` found %d times" % (rel, fn_name, at, len(hits)))
            start = code[hits[0]]
            j, depth, end = start, 0, None
            while j < hi:
                t = toks[j]
                if t.kind == "p" and t.text in "([": depth += 1
                elif t.kind == "p" and t.text in ")]": depth -= 1
                elif t.kind == "p" and t.text == "{" and depth == 0:
                    end = match_close(toks, j)
                    # an `if` goes on through its `else` / `else if` branches
                    nx = end + 1
                    while nx < hi and toks[nx].kind not in CODE: nx += 1
                    if nx < hi and toks[nx].text == "else":
                        j = nx + 1; continue
                    break
                j += 1
            if end is None:
                raise AnchorLost("%s: fn %s: expression at `%s` has no block" % (rel, fn_name, at))
            if "blockonly" in opts:
                # the anchor is the HEAD of a match arm (e.g. `Some("election-win") =>`): what is extracted is the arm's block alone
                start = j
            expr = s.text_of(start, end)
            src_line = s.line_of(toks[start].start)
            xparams = next((o.split("=", 1)[1] for o in opts if o.startswith("params=")), "")
            xret = next((o.split("=", 1)[1] for o in opts if o.startswith("ret=")), None)
            # the expression is wrapped as a function of its own (a synthetic source item) and goes through the SAME pipeline as any extracted function: lock elision, rewrites, ghost
            # insertions, loop invariants.  Its text is the expression verbatim; the enclosing function's locals it uses are the parameters named in params=
            synth = "fn %s(%s)%s {\n%s\n}\n" % (variant, xparams, (" -> %s" % xret) if xret else "", expr)
            srel = "%s#%s" % (rel, variant)
            _sources[srel] = Source(srel, text=synth, line_base=src_line - 2)
            self.dropped.append("expression `%s ..` of %s (%s:%d): R10c extracted as fn %s; the enclosing function's locals `%s` become parameters" % (at, fn_name, rel, src_line, variant, xparams))
            self.counts.add("R10c.expression-extracted-as-function")
            fopts = [o for o in opts if not o.startswith(("at=", "params=", "ret=")) and o != "blockonly"]
            if xret and not any(o.startswith("ret=") for o in fopts): fopts.append("ret=r")
            return self._do_fn(srel, variant, fopts, block)
        # locate `Request :: variant`
        pos = None
        for ci in range(len(code) - 4):
            a, b, c, d2 = (toks[code[ci + x]] for x in range(4))
            if a.text == "Request" and b.text == ":" and c.text == ":" and d2.text == variant:
                nx = toks[code[ci + 4]]
                if nx.text in ("{", "=", "("):
                    pos = ci; break
        if pos is None:
            raise AnchorLost("%s: fn %s has no arm Request::%s" % (rel, fn_name, variant))
        k = code[pos + 4]
        bindings = []
        if toks[k].text == "{":
            close = match_close(toks, k)
            inner = [t for t in toks[k + 1:close] if t.kind in CODE]
            cur = []
            groups = []
            for t in inner:
                if t.text == ",":
                    groups.append(cur); cur = []
                else:
                    cur.append(t)
            if cur: groups.append(cur)
            for g in groups:
                if not g: continue
                field = g[0].text
                bind = g[2].text if len(g) >= 3 and g[1].text == ":" else field
                bindings.append((field, bind))
            k = close + 1
        # `=>`
        while toks[k].kind not in CODE: k += 1
        if not (toks[k].text == "=" and toks[k + 1].text == ">"):
            raise AnchorLost("%s: arm Request::%s: expected `=>`" % (rel, variant))
        k += 2
        while toks[k].kind not in CODE: k += 1
        start = k
        # arm expression: a block, or up to the `,` at depth 0
        if toks[k].text == "{":
            end = match_close(toks, k)
        else:
            depth, j = 0, k
            while j < hi:
                t = toks[j]
                if t.kind == "p" and t.text in "([{": depth += 1
                elif t.kind == "p" and t.text in ")]}":
                    if depth == 0: break
                    depth -= 1
                elif t.kind == "p" and t.text == "," and depth == 0:
                    break
                j += 1
            end = j - 1
            while toks[end].kind not in CODE: end -= 1
        expr = s.text_of(start, end)
        src_line = s.line_of(toks[start].start)
        # field types from `enum Request`
        ftypes = {}
        bo = source("src/lib/bo.rs")
        en = bo.find("enum", "Request")
        et = bo.toks
        ecode = [q for q in range(en["body_open"], en["end"]) if et[q].kind in CODE]
        for ci in range(len(ecode) - 1):
            if et[ecode[ci]].text == variant and et[ecode[ci + 1]].text == "{":
                vc_close = match_close(et, ecode[ci + 1])
                txt = bo.text_of(ecode[ci + 1] + 1, vc_close - 1)
                for part in re.split(r",\s*\n|,\s*$", txt.strip()):
                    if ":" in part:
                        fname, ftype = part.split(":", 1)
                        ftypes[fname.strip()] = ftype.strip().rstrip(",")
                break
        closure_arg = int(next((o.split("=", 1)[1] for o in opts if o.startswith("closure=")), "0"))
        guard = next((o.split("=", 1)[1] for o in opts if o.startswith("guard=")), None)
        # guards=name:argno;name:argno  (an arm with several guard calls, e.g. one per branch)
        multi = next((o.split("=", 1)[1] for o in opts if o.startswith("guards=")), None)
        guard_list = [(g.split(":")[0], int(g.split(":")[1])) for g in multi.split(";")] if multi else ([(guard, closure_arg)] if closure_arg else [])
        new_expr = expr
        for (gname, argno) in guard_list:
            etoks = lex(new_expr)
            gi = next((q for q, t in enumerate(etoks) if t.kind == "id" and t.text == gname), None)
            if gi is None:
                raise AnchorLost("%s: arm Request::%s does not call `%s` (the guard this contract is about)" % (rel, variant, gname))
            op = gi + 1
            while etoks[op].kind not in CODE: op += 1
            if etoks[op].text != "(":
                raise AnchorLost("%s: arm Request::%s: `%s` is not called" % (rel, variant, gname))
            cl = match_close(etoks, op)
            args, cur, depth = [], [], 0
            for q in range(op + 1, cl):
                t = etoks[q]
                if t.kind == "p" and t.text in "([{": depth += 1
                elif t.kind == "p" and t.text in ")]}": depth -= 1
                if t.kind == "p" and t.text == "," and depth == 0:
                    args.append(cur); cur = []
                else:
                    cur.append(t)
            if any(t.kind in CODE for t in cur): args.append(cur)
            if argno > len(args):
                raise AnchorLost("%s: arm Request::%s: call of `%s` has %d argument(s), closure argument %d" % (rel, variant, gname, len(args), argno))
            lift = next((o.split("=", 1)[1] for o in opts if o.startswith("lift=")), None)
            if lift is not None:
                # R10b (lambda lifting): the closure literal handed to the guard becomes a function of its own - `op_<variant>(<arm bindings>, <closure parameters, typed by lift=>, dbs, client)`
                # with the closure body verbatim; the arm with the closure abstracted is verified separately (guard usage), this is WHAT the operation does once allowed
                ctoks = [t for t in args[argno - 1] if t.kind in CODE]
                ci0 = 0
                while ci0 < len(ctoks) and ctoks[ci0].text == "&": ci0 += 1
                if ci0 >= len(ctoks) or ctoks[ci0].text != "|":
                    raise AnchorLost("%s: arm Request::%s: argument %d of `%s` is not a closure literal" % (rel, variant, argno, gname))
                cj = ci0 + 1
                while cj < len(ctoks) and ctoks[cj].text != "|": cj += 1
                full = toks_text(args[argno - 1])
                # body = text after the second `|`
                bar2 = [t for t in lex(full) if t.kind == "p" and t.text == "|"][1]
                cbody = full[bar2.end:].strip()
                self._lifted = dict(body=cbody, cparams=lift, gname=gname)
                break
            dropped = re.sub(r"\s+", " ", toks_text(args[argno - 1]))[:300]
            self.dropped.append("arm Request::%s (%s:%d): R10 closure literal handed to `%s` replaced by the abstract closure `opp`; dropped text: %s" % (
                variant, rel, src_line, gname, dropped))
            args[argno - 1] = [Tok("p", " opp", 0, 0)]
            new_expr = toks_text(etoks[:op + 1]) + ",".join(toks_text(a) for a in args) + toks_text(etoks[cl:])
            self.counts.add("R10.arm-closure-abstracted")
        closure_arg = 1 if guard_list else 0
        if guard is None and guard_list:
            guard = guard_list[0][0]
        lifted = getattr(self, "_lifted", None)
        self._lifted = None
        if lifted:
            new_expr = lifted["body"] if lifted["body"].lstrip().startswith("{") else "{ " + lifted["body"] + " }"
            closure_arg = 0
            self.dropped.append("arm Request::%s (%s:%d): R10b the closure handed to `%s` is lifted to the function `op_%s`: its parameters `%s` are typed by the contract file, what it captures "
                                "(the arm's bindings, dbs, client) becomes parameters" % (variant, rel, src_line, lifted["gname"], variant.lower(), lifted["cparams"]))
            self.counts.add("R10b.closure-lifted-to-function")
        new_expr = rewrite_builtin(new_expr, self.counts, mutable=("mutclient" in opts or bool(lifted)))
        if "strfrom" in opts:
            new_expr = apply_literal_rewrite(new_expr, "String::from(", "shim_string_from(", -1, self.counts, name_hint(variant))
        for lno, ln in block:
            if ln.startswith("//@rewrite"):
                frm, to, expect, _w = _parse_rewrite(ln, self.vc_path, lno - 1)
                new_expr = apply_literal_rewrite(new_expr, frm, to, expect, self.counts, name_hint(variant))
        for (hd, extra, norms) in self.unit_call_extra:
            new_expr = append_call_args(new_expr, hd, extra, self.counts, norms)
        # R11 in an arm: a closure literal kept verbatim gets a typed head and a contract (`//@closure` + the lines up to the next directive)
        arm_closure_lines = set()
        bi = 0
        while bi < len(block):
            lno, ln = block[bi]
            if ln.startswith("//@closure"):
                m = re.match(r"//@closure\s+`(.*?)`\s*=>\s*`(.*?)`(?:\s+bind\s+`(.*?)`)?\s*$", ln)
                if not m:
                    raise AnchorLost("%s:%d: bad //@closure" % (self.vc_path, lno))
                arm_closure_lines.add(bi)
                cl = []
                bj = bi + 1
                while bj < len(block) and not block[bj][1].startswith("//@"):
                    cl.append(block[bj]); arm_closure_lines.add(bj); bj += 1
                a, b = find_anchor(new_expr, m.group(1), "%s (%s:%d)" % (name_hint(variant), os.path.basename(self.vc_path), lno))
                ctext, e = apply_closure_edit(new_expr, a, b, m.group(2), m.group(3) or "", cl, lno, "%s: closure `%s`" % (name_hint(variant), m.group(1)))
                new_expr = new_expr[:a] + ctext + new_expr[e:]
                self.counts.add("R11.closure-head-typed `%s` => `%s`" % (m.group(1), m.group(2)))
                self.counts.add("ghost-insertions")
                bi = bj; continue
            bi += 1
        block = [x for q, x in enumerate(block) if q not in arm_closure_lines]
        for lno, ln in block:
            if ln.startswith("//@chain"):
                m = re.match(r"//@chain\s+`(.*?)`\s*=>\s*`(.*?)`\s*$", ln)
                if not m:
                    raise AnchorLost("%s:%d: bad //@chain" % (self.vc_path, lno))
                new_expr = rewrite_method_chain(new_expr, m.group(1).split(), m.group(2), self.counts, name_hint(variant))
        block = [x for x in block if not x[1].startswith("//@chain")]
        ftype = "Fn() -> Response" if guard == "apply_if_auth" else "Fn(&Database) -> Response"
        params = []
        for field, bind in bindings:
            if bind == "_": continue
            if field not in ftypes:
                raise AnchorLost("%s: arm Request::%s: field `%s` not found in enum Request" % (rel, variant, field))
            params.append("%s: %s" % (bind, ftypes[field]))
        name = "arm_" + re.sub(r"(?<!^)(?=[A-Z])", "_", variant).lower()
        xparams = next((o.split("=", 1)[1] for o in opts if o.startswith("params=")), None)
        xret = next((o.split("=", 1)[1] for o in opts if o.startswith("ret=")), None)
        if lifted:
            name = "op_" + re.sub(r"(?<!^)(?=[A-Z])", "_", variant).lower()
            plist = list(params) + ([lifted["cparams"]] if lifted["cparams"].strip() else [])
            plist.append("dbs: &mut Databases" if "mutdbs" in opts else "dbs: &Arc<Databases>")
            plist.append("client: &mut Client" if "mutclient" in opts else "client: &Client")
            sig = "fn %s(%s) -> (r: Response)" % (name, ", ".join(plist))
        elif xparams is not None:
            # an arm of another dispatcher (e.g. the match of the replication thread): the locals of the enclosing function it uses become the parameters named here
            sig = "fn %s(%s%s%s) -> (r: %s)" % (name, ", ".join(params), ", " if params else "", xparams, xret or "Response")
            self.dropped.append("arm Request::%s of %s (%s:%d): R10 the enclosing function's locals `%s` become parameters" % (variant, fn_name, rel, src_line, xparams))
        elif closure_arg:
            sig = "fn %s<F: %s>(%s%sdbs: &Arc<Databases>, client: &Client, opp: &F) -> (r: Response)" % (
                name, ftype, ", ".join(params), ", " if params else "")
        else:
            # extra=`tok: &mut T`: one more (token) parameter - a hidden object made explicit (R6), e.g. the published $connections value in unit sessions
            extra = next((o.split("=", 1)[1] for o in opts if o.startswith("extra=")), None)
            sig = "fn %s(%s%sdbs: %s, client: &%sClient%s) -> (r: Response)" % (
                name, ", ".join(params), ", " if params else "", "&mut Databases" if "mutdbs" in opts else "&Arc<Databases>",
                "mut " if "mutclient" in opts else "", (", " + extra) if extra else "")
        return self._emit_arm_fn(rel, variant, name, sig, block, new_expr, expr, src_line, "%s:arm Request::%s (source)" % (rel, variant))

    def _emit_arm_fn(self, rel, variant, name, sig, block, new_expr, expr, src_line, diff_title):
        owner_name = name
        self.emit(sig, owner_name, None, "sig", src="%s:%d" % (rel, src_line))
        label, labels = None, []
        ghost_lines, in_ghost = [], False
        before_all, cur_anchor = [], None
        for lno, ln in block:
            if ln.startswith("//@rewrite"):
                continue
            if ln.strip() == "//@insert start":
                in_ghost = True; cur_anchor = None; continue
            mba = re.match(r"//@insert\s+before-all\s+`(.*)`\s*$", ln)
            if mba:
                in_ghost = True; cur_anchor = [mba.group(1), [], lno]; before_all.append(cur_anchor); continue
            if in_ghost and cur_anchor is not None:
                cur_anchor[1].append(ln); continue
            if in_ghost:
                ghost_lines.append((lno, ln)); continue
            m = re.match(r"\s*//\s*\[([^\]]*)\]", ln)
            if m:
                label = m.group(1).strip() or None
                if label and label not in labels: labels.append(label)
            self.emit(ln, owner_name, label, "spec", src="%s:%d" % (os.path.basename(self.vc_path), lno))
        for (anchor, glines, lno) in before_all:
            atoks = [t for t in lex(anchor) if t.kind in CODE]
            btoks = lex(new_expr)
            code = [q for q, t in enumerate(btoks) if t.kind in CODE]
            offs = []
            for ci in range(len(code) - len(atoks) + 1):
                if all(btoks[code[ci + d]].text == atoks[d].text for d in range(len(atoks))):
                    offs.append(btoks[code[ci]].start)
            if not offs:
                raise AnchorLost("%s: arm Request::%s: anchor `%s` not found" % (rel, variant, anchor))
            for off in reversed(offs):
                new_expr = new_expr[:off] + "\n" + "\n".join(glines) + "\n" + new_expr[off:]
                self.counts.add("ghost-insertions")
        self.emit("{", owner_name, None, "glue")
        for lno, ln in ghost_lines:
            self.emit(ln, owner_name, None, "ghost", src="%s:%d" % (os.path.basename(self.vc_path), lno))
            self.counts.add("ghost-insertions")
        aghost, aglabel = False, None
        for q, bl in enumerate(new_expr.split("\n")):
            if bl.startswith("/*@ghost-begin"):
                aghost = True; aglabel = None; continue
            if bl.startswith("/*@ghost-end*/"):
                aghost = False; aglabel = None; continue
            if aghost:
                mlab = re.match(r"\s*//\s*\[([^\]]*)\]", bl)
                if mlab:
                    aglabel = mlab.group(1).strip() or None
                    if aglabel:
                        for lb in [x.strip() for x in aglabel.split(",")]:
                            if lb and lb not in labels: labels.append(lb)
            self.emit(bl, owner_name, aglabel if aghost else None, "ghost" if aghost else "body", src="%s:%d" % (rel, src_line + q))
        self.emit("}", owner_name, None, "glue")
        self.functions.append(dict(path=name, file=rel, line=src_line, external=False, labels=labels, mutself=False, body=new_expr))
        new_expr = model_leftovers(new_expr, self.counts)
        self.diffs[name] = "".join(difflib.unified_diff(expr.splitlines(True), new_expr.splitlines(True), diff_title, "extracted", n=0))
        self.counts.add("items.arm")

    # ---- functions
    def _do_fn(self, rel, path, opts, block):
        self.counts.owner = path
        try:
            return self._do_fn_inner(rel, path, opts, block)
        finally:
            self.counts.owner = None

    def _do_fn_inner(self, rel, path, opts, block):
        s = source(rel)
        if "::" in path:
            owner, name = path.rsplit("::", 1)
        else:
            owner, name = None, path
        it = s.find("fn", name, owner)
        toks = s.toks
        if it["body_open"] is None:
            raise AnchorLost("%s: fn %s has no body" % (rel, path))
        src_line = s.line_of(toks[it["kw"]].start)
        ret = next((o.split("=", 1)[1] for o in opts if o.startswith("ret=")), None)
        external = "external" in opts
        mutself = "mutself" in opts
        # split block into spec lines and body directives
        spec, edits, rewrites = [], [], list(self.unit_rewrites)
        chains = []
        call_through = []
        k = 0
        while k < len(block):
            lno, ln = block[k]
            if ln.startswith("//@rewrite") or ln.startswith("//@sig-rewrite") or ln.startswith("//@pre-rewrite"):
                rewrites.append(_parse_rewrite(ln, self.vc_path, lno - 1)); k += 1; continue
            if ln.startswith("//@call-through"):
                # R12b: a call through the function value another call returns, `f(A)(B)`, becomes `g(f(A), B)` - whatever the argument lists are
                m = re.match(r"//@call-through\s+`(.*?)`\s*=>\s*`(.*?)`\s*$", ln)
                if not m:
                    raise AnchorLost("%s:%d: bad //@call-through" % (self.vc_path, lno))
                call_through.append((m.group(1), m.group(2))); k += 1; continue
            if ln.startswith("//@replace-stmts"):
                m = re.match(r"//@replace-stmts\s+`(.*?)`\s+x(\d+)\s*=>\s*`(.*)`\s*$", ln)
                if not m:
                    raise AnchorLost("%s:%d: bad //@replace-stmts" % (self.vc_path, lno))
                edits.append(("replace", m.group(1), (int(m.group(2)), m.group(3)), lno)); k += 1
                continue
            if ln.startswith("//@replace-call"):
                m = re.match(r"//@replace-call\s+`(.*?)`\s+#(\d+)\s*=>\s*`(.*)`\s*$", ln)
                if not m:
                    raise AnchorLost("%s:%d: bad //@replace-call" % (self.vc_path, lno))
                edits.append(("call", m.group(1), (int(m.group(2)), m.group(3)), lno)); k += 1
                continue
            if ln.startswith("//@chain"):
                m = re.match(r"//@chain\s+`(.*?)`\s*=>\s*`(.*?)`\s*$", ln)
                if not m:
                    raise AnchorLost("%s:%d: bad //@chain" % (self.vc_path, lno))
                chains.append((m.group(1).split(), m.group(2))); k += 1
                continue
            if ln.startswith("//@closure"):
                # R11: a closure literal `|pat| body` gets a typed head and a contract: `|x: T| -> (r: R) <requires/ensures lines> { <bind> body }`
                m = re.match(r"//@closure\s+`(.*?)`\s*=>\s*`(.*?)`(?:\s+bind\s+`(.*?)`)?(?:\s+as\s+`(.*?)`)?\s*$", ln)
                if not m:
                    raise AnchorLost("%s:%d: bad //@closure" % (self.vc_path, lno))
                cbody = []
                k += 1
                while k < len(block) and not block[k][1].startswith("//@"):
                    cbody.append(block[k]); k += 1
                edits.append(("closure", m.group(1), (m.group(2), m.group(3) or "", cbody, m.group(4)), lno))
                continue
            if ln.startswith("//@insert"):
                optional = ln.startswith("//@insert?")
                if optional:
                    ln = "//@insert" + ln[len("//@insert?"):]
                m = re.match(r"//@insert\s+(before|after|inv|loop-end|loop-start|wrap-call|wrap)\s+`(.*)`\s*$", ln)
                if not m:
                    m = re.match(r"//@insert\s+(tail|start|end)()\s*$", ln)
                if not m:
                    raise AnchorLost("%s:%d: bad //@insert" % (self.vc_path, lno))
                body = []
                k += 1
                while k < len(block) and not block[k][1].startswith("//@"):
                    body.append(block[k]); k += 1
                edits.append((m.group(1) + ("?" if optional else ""), m.group(2), body, lno))
                continue
            if ln.startswith("//@"):
                raise AnchorLost("%s:%d: unknown directive inside fn block" % (self.vc_path, lno))
            spec.append((lno, ln)); k += 1
        # signature
        sig_start = it["start"]
        sig = s.text_of(sig_start, it["body_open"] - 1).rstrip()
        body = s.text_of(it["body_open"], it["end"])
        orig = sig + " " + body
        # strip doc comments from the signature region (keep attributes)
        sig = re.sub(r"(?m)^\s*///.*\n", "", sig)
        sig = re.sub(r"(?s)/\*\*.*?\*/\s*", "", sig)
        sig = re.sub(r"#\[cfg_attr\(kani,[^\n]*\]\s*\n", "", sig)
        if mutself:
            sig2 = re.sub(r"\(\s*&\s*self\b", "(&mut self", sig, count=1)
            if sig2 == sig:
                raise AnchorLost("%s: fn %s: mutself requested but no `&self` receiver" % (rel, path))
            sig = sig2
            self.counts.add("R4.self-to-mut-self")
        for o in opts:
            if o.startswith("mutarg="):
                an = o.split("=", 1)[1]
                sig2 = re.sub(r"\b%s\s*:\s*&\s*(?!mut\b)" % re.escape(an), "%s: &mut " % an, sig, count=1)
                if sig2 == sig:
                    raise AnchorLost("%s: fn %s: mutarg=%s: no `%s: &T` parameter" % (rel, path, an, an))
                sig = sig2
                self.counts.add("R4.arg-to-mut-ref")
        if ret:
            # find the top-level `->` of the signature
            stoks = lex(sig)
            depth, arrow = 0, None
            for q, t in enumerate(stoks):
                if t.kind == "p" and t.text in "([": depth += 1
                if t.kind == "p" and t.text in ")]": depth -= 1
                if depth == 0 and arrow is None and t.kind == "p" and t.text == "-" and q + 1 < len(stoks) and stoks[q + 1].text == ">":
                    arrow = q
            if arrow is None:
                raise AnchorLost("%s: fn %s: ret= given but the signature has no return type" % (rel, path))
            rt = toks_text(stoks[arrow + 2:]).strip()
            wh = ""
            mwh = re.search(r"\bwhere\b", rt)
            if mwh:
                wh = " " + rt[mwh.start():]; rt = rt[:mwh.start()].strip()
            sig = toks_text(stoks[:arrow]).rstrip() + " -> (%s: %s)%s" % (ret, rt, wh)
        sig = rewrite_types(sig, self.counts)
        for (frm, to) in self.unit_sig_rewrites:
            try:
                sig = apply_literal_rewrite(sig, frm, to, None, self.counts, "%s sig" % path)
            except AnchorLost:
                pass
        for (frm, to, expect, _w) in [r for r in rewrites if r[3] == "sig"]:
            sig = apply_literal_rewrite(sig, frm, to, expect, self.counts, "%s sig" % path)
        # body rewrites
        if external:
            new_body = "{ unimplemented!() }"
            self.dropped.append("fn %s (%s:%d): body NOT verified (external, trusted spec)" % (path, rel, src_line))
            self.counts.add("R7.external-body")
        else:
            pre_body = body
            for (frm, to, expect, where) in rewrites:
                if where == "pre":
                    pre_body = apply_literal_rewrite(pre_body, frm, to, expect, self.counts, path)
            new_body = rewrite_builtin(pre_body, self.counts, mutable=(mutself or "mutlocks" in opts or any(o.startswith("mutarg=") for o in opts)))
            for (frm, to, expect, where) in rewrites:
                if where in ("sig", "pre"): continue
                if where == "unit":
                    # unit-wide rewrites apply where they match; zero matches allowed
                    try:
                        new_body = apply_literal_rewrite(new_body, frm, to, None, self.counts, path)
                    except AnchorLost:
                        pass
                else:
                    new_body = apply_literal_rewrite(new_body, frm, to, expect, self.counts, path)
            for (hd, rp) in self.unit_call_repl:
                new_body = replace_all_calls(new_body, hd, rp, self.counts)
            for (hd, extra, norms) in self.unit_call_extra:
                new_body = append_call_args(new_body, hd, extra, self.counts, norms)
            for (fnv, via) in call_through:
                new_body = rewrite_call_through(new_body, fnv, via, self.counts, path)
            for (mth, fnn) in self.unit_method_shims:
                new_body = rewrite_method_to_fn(new_body, mth, fnn, self.counts)
            chains_done = False
            for (mode, anchor, ins, lno) in sorted(edits, key=lambda e: 0 if e[0] == "tail" else (1 if e[0] == "closure" else 2)) + [("chains-flush", None, None, 0)]:
                if mode != "tail" and mode != "closure" and not chains_done:
                    # R11 pipelines are rewritten once the closures have their typed heads, before ghost code is anchored to the resulting statements
                    for (mths, fnn) in chains:
                        new_body = rewrite_method_chain(new_body, mths, fnn, self.counts, path)
                    chains_done = True
                if mode == "chains-flush":
                    continue
                if mode == "tail":
                    # R9: `{ stmts; tail }` -> `{ stmts; let r__ = tail; <ghost> r__ }` (same evaluation order)
                    a, e = _tail_span(new_body, path)
                    text = "\n".join(x[1] for x in ins)
                    new_body = (new_body[:a] + "let r__ = " + new_body[a:e] + ";\n/*@ghost-begin %d*/\n%s\n/*@ghost-end*/\nr__" % (lno, text)
                                + new_body[e:])
                    self.counts.add("R9.tail-expression-bound-to-local")
                    self.counts.add("ghost-insertions")
                    continue
                if mode == "call":
                    nth, repl = ins
                    btoks = lex(new_body)
                    ftoks = [t for t in lex(anchor) if t.kind in CODE]
                    code = [q for q, t in enumerate(btoks) if t.kind in CODE]
                    hits = []
                    for ci in range(len(code) - len(ftoks)):
                        if all(btoks[code[ci + d]].text == ftoks[d].text for d in range(len(ftoks))):
                            nx = code[ci + len(ftoks)]
                            if btoks[nx].text in "([{":
                                hits.append((btoks[code[ci]].start, btoks[match_close(btoks, nx)].end))
                    if len(hits) < nth:
                        raise AnchorLost("%s: replace-call `%s` #%d: only %d call(s) found" % (path, anchor, nth, len(hits)))
                    a, e = hits[nth - 1]
                    self.dropped.append("fn %s: R6 call `%s` replaced by `%s`" % (path, re.sub(r"\s+", " ", new_body[a:e])[:200], repl))
                    new_body = new_body[:a] + repl + new_body[e:]
                    self.counts.add("R6.call-replaced `%s`" % anchor)
                    continue
                if mode == "end":
                    text = "\n".join(x[1] for x in ins)
                    cb = new_body.rindex("}")
                    new_body = new_body[:cb] + "\n/*@ghost-begin %d*/\n%s\n/*@ghost-end*/\n" % (lno, text) + new_body[cb:]
                    self.counts.add("ghost-insertions")
                    continue
                if mode == "start":
                    text = "\n".join(x[1] for x in ins)
                    ob = new_body.index("{") + 1
                    new_body = new_body[:ob] + "\n/*@ghost-begin %d*/\n%s\n/*@ghost-end*/\n" % (lno, text) + new_body[ob:]
                    self.counts.add("ghost-insertions")
                    continue
                if mode.endswith("?"):
                    # optional ghost hint: when the statement it annotates is gone the hint is skipped and the proof stands or falls without it
                    mode = mode[:-1]
                    try:
                        find_anchor(new_body, anchor, "")
                    except AnchorLost:
                        self.counts.add("ghost-insertions-skipped(anchor absent)")
                        continue
                a, b = find_anchor(new_body, anchor, "%s (%s:%d)" % (path, os.path.basename(self.vc_path), lno))
                if mode == "closure":
                    typed, bind, clines, asname = ins
                    ctext, e = apply_closure_edit(new_body, a, b, typed, bind, clines, lno, "%s: closure `%s`" % (path, anchor))
                    if asname:
                        # the closure literal is bound to a local right before the top-level statement of the function body that contains it (creating a
                        # closure has no effect; what it captures is borrowed, so it cannot change in between) - ghost code can then name it
                        btk = [t for t in lex(new_body) if t.kind in CODE]
                        pos, s0 = btk[1].start, None
                        inner_end = btk[-1].start
                        while pos < inner_end:
                            se = _stmts_end(new_body[:inner_end], pos, 1)
                            if pos <= a < se:
                                s0 = pos; break
                            nx = [t for t in btk if t.start >= se and t.start < inner_end]
                            if not nx: break
                            pos = nx[0].start
                        if s0 is None:
                            raise AnchorLost("%s: closure `%s`: enclosing statement not found" % (path, anchor))
                        new_body = new_body[:s0] + "let %s = %s;\n" % (asname, ctext) + new_body[s0:a] + asname + new_body[e:]
                        self.counts.add("R11.closure-bound-to-local `%s`" % asname)
                    else:
                        new_body = new_body[:a] + ctext + new_body[e:]
                    self.counts.add("R11.closure-head-typed `%s` => `%s`" % (anchor, typed))
                    self.counts.add("ghost-insertions")
                    continue
                if mode == "replace":
                    nst, repl = ins
                    e = _stmts_end(new_body, a, nst)
                    self.dropped.append("fn %s: R8 %d statement(s) starting at `%s` replaced by `%s`; dropped text: %s" % (
                        path, nst, anchor, repl, re.sub(r"\s+", " ", new_body[a:e])[:400]))
                    new_body = new_body[:a] + repl + new_body[e:]
                    self.counts.add("R8.stmts-replaced", nst)
                    continue
                text = "\n".join(x[1] for x in ins)
                marker = "\n/*@ghost-begin %d*/\n%s\n/*@ghost-end*/\n" % (lno, text)
                if mode == "wrap-call":
                    # the anchor is the beginning of a call `f(a,`: the whole call up to its closing parenthesis is bound to a local (R9 for an inner expression)
                    btoks = lex(new_body)
                    qi = next((idx for idx, t in enumerate(btoks) if t.start >= a and t.kind == "p" and t.text == "("), None)
                    if qi is None or btoks[qi].start >= b:
                        raise AnchorLost("%s: wrap-call `%s`: no `(` in the anchor" % (path, anchor))
                    e = btoks[match_close(btoks, qi)].end
                    new_body = new_body[:a] + "{ let r__ = " + new_body[a:e] + ";" + marker + "r__ }" + new_body[e:]
                    self.counts.add("R9.expression-bound-to-local")
                elif mode == "wrap":
                    # R9 for an inner expression: `EXPR` -> `{ let r__ = EXPR; <ghost> r__ }` (same evaluation, the value is bound so that ghost code can follow it)
                    new_body = new_body[:a] + "{ let r__ = " + new_body[a:b] + ";" + marker + "r__ }" + new_body[b:]
                    self.counts.add("R9.expression-bound-to-local")
                elif mode == "before":
                    new_body = new_body[:a] + marker + new_body[a:]
                elif mode == "after":
                    new_body = new_body[:b] + marker + new_body[b:]
                else:  # inv: before the `{` that opens the loop body; loop-end: before the `}` that closes it
                    btoks = lex(new_body)
                    q = next(idx for idx, t in enumerate(btoks) if t.start >= b and t.kind == "p" and t.text == "{"
                             and _depth_between(btoks, b, idx) == 0)
                    if mode == "loop-end":
                        q = match_close(btoks, q)
                    off = btoks[q].start
                    if mode == "loop-start":
                        off = btoks[q].end   # right after the `{` that opens the loop body
                    new_body = new_body[:off] + marker + new_body[off:]
                self.counts.add("ghost-insertions")
        # emit
        owner_name = path
        impl_open = None
        asfree = [o.split("=", 1)[1] for o in opts if o.startswith("asfree=")]
        if owner and asfree:
            # R6: a trait method is emitted as a free function under another name (Verus refuses `requires` on trait impl methods); `Self` becomes the
            # implementing type; calls are redirected by an explicit //@rewrite at the call sites
            ty = owner.split("@", 1)[1] if "@" in owner else owner
            sig = re.sub(r"\bfn\s+%s\b" % re.escape(name), "fn " + asfree[0], sig, count=1)
            sig = re.sub(r"\bSelf\b", ty, sig)
            new_body = re.sub(r"\bSelf\b", ty, new_body)
            new_body = re.sub(r"\buse self::", "use ", new_body)
            self.dropped.append("fn %s: emitted as free function `%s` (R6: no `requires` on trait impl methods in Verus)" % (path, asfree[0]))
            self.counts.add("R6.trait-method-as-free-fn")
        elif owner:
            if "@" in owner:
                tr, ty = owner.split("@", 1)
                impl_open = "impl %s for %s {" % (tr, ty)
            else:
                impl_open = "impl %s {" % owner
            self.emit(impl_open, owner_name, None, "glue")
        if external:
            self.emit("#[verifier::external_body]", owner_name, None, "glue")
        if "nodecreases" in opts:
            self.emit("#[verifier::exec_allows_no_decreases_clause]", owner_name, None, "glue")
            self.dropped.append("fn %s: termination NOT proved (exec_allows_no_decreases_clause)" % path)
        if "noisolation" in opts:
            self.emit("#[verifier::loop_isolation(false)]", owner_name, None, "glue")
        self.emit(sig, owner_name, None, "sig", src="%s:%d" % (rel, src_line))
        label = None
        labels = []
        for lno, ln in spec:
            m = re.match(r"\s*//\s*\[([^\]]*)\]", ln)
            if m:
                label = m.group(1).strip() or None
                if label and label not in labels: labels.append(label)
            self.emit(ln, owner_name, label, "spec", src="%s:%d" % (os.path.basename(self.vc_path), lno))
        if not external:
            new_body = model_leftovers(new_body, self.counts)
        # body, line by line, with source line numbers where they can be recovered
        body_first_line = s.line_of(toks[it["body_open"]].start)
        ghost = False; glabel = None
        srcno = body_first_line
        orig_lines = [x.strip() for x in body.split("\n")]
        cursor = 0
        for bl in new_body.split("\n"):
            if bl.startswith("/*@ghost-begin"):
                ghost = True; glabel = None; continue
            if bl.startswith("/*@ghost-end*/"):
                ghost = False; glabel = None; continue
            if ghost:
                # a `// [Cnn.label]` comment inside an inserted invariant block names the clauses that follow it (until the next `// [..]` comment, `// []` resets, or the end of the block)
                mlab = re.match(r"\s*//\s*\[([^\]]*)\]", bl)
                if mlab:
                    glabel = mlab.group(1).strip() or None
            exact = False
            if not ghost and bl.strip():
                for q in range(cursor, len(orig_lines)):
                    if orig_lines[q] == bl.strip():
                        srcno = body_first_line + q; cursor = q + 1; exact = True
                        break
            self.emit(bl, owner_name, glabel if ghost else None, "ghost" if ghost else "body",
                      src="%s:%s%d" % (rel, "" if exact else "~", srcno))
        if impl_open:
            self.emit("}", owner_name, None, "glue")
        self.functions.append(dict(path=path, file=rel, line=src_line, external=external, labels=labels,
                                   mutself=mutself, body=(new_body if not external else "")))
        if not external:
            nb = re.sub(r"(?s)/\*@ghost-begin \d+\*/.*?/\*@ghost-end\*/\n?", "", new_body)
            self.diffs[path] = "".join(difflib.unified_diff(
                (body).splitlines(True), (nb).splitlines(True), "%s:%s (source)" % (rel, path), "extracted", n=0))
        self.counts.add("items.fn")


def _stmts_end(text, start, count):
    """offset just after `count` statements beginning at offset `start`"""
    toks = [t for t in lex(text) if t.start >= start]
    code = [t for t in toks if t.kind in CODE]
    i = 0
    for _ in range(count):
        if i >= len(code):
            raise AnchorLost("replace-stmts: ran out of statements")
        first = code[i].text
        blocklike = first in ("match", "if", "for", "while", "loop", "{", "unsafe")
        depth = 0
        if first in ("if", "while") and i + 1 < len(code) and code[i + 1].text == "let":
            # `if let PATTERN = EXPR { .. }`: the braces of a struct pattern do not end the statement - skip to the `=` that ends the pattern
            d2 = 0
            while i < len(code):
                t = code[i]
                if t.kind == "p" and t.text in "([{": d2 += 1
                elif t.kind == "p" and t.text in ")]}": d2 -= 1
                elif t.kind == "p" and t.text == "=" and d2 == 0:
                    i += 1; break
                i += 1
        while i < len(code):
            t = code[i]
            if t.kind == "p" and t.text in "([{": depth += 1
            elif t.kind == "p" and t.text in ")]}":
                depth -= 1
                if depth < 0:
                    # tail expression of the enclosing block: it ends right before the closing brace
                    return code[i - 1].end
                if depth == 0 and t.text == "}" and blocklike:
                    nxt = code[i + 1].text if i + 1 < len(code) else ""
                    if nxt not in (".", "?", "else", ";"):
                        i += 1; break
            elif t.kind == "p" and t.text == ";" and depth == 0:
                i += 1; break
            i += 1
    return code[i - 1].end


def name_hint(v):
    return "arm Request::%s" % v


def _tail_span(body, path):
    """(start, end) offsets of the tail expression of a `{ ... }` function body"""
    toks = lex(body)
    code = [t for t in toks if t.kind in CODE]
    if not code or code[0].text != "{" or code[-1].text != "}":
        raise AnchorLost("%s: body is not a block" % path)
    inner_end = code[-1].start
    pos = code[1].start if len(code) > 2 else inner_end
    last = None
    while pos < inner_end:
        e = _stmts_end(body[:inner_end], pos, 1)
        last = (pos, e)
        nxt = [t for t in toks if t.kind in CODE and t.start >= e and t.start < inner_end]
        if not nxt:
            break
        pos = nxt[0].start
    if last is None or body[last[1] - 1] == ";":
        raise AnchorLost("%s: body has no tail expression" % path)
    return last


def _depth_between(toks, off, idx):
    d = 0
    for t in toks[:idx]:
        if t.start < off: continue
        if t.kind == "p" and t.text in "([{": d += 1
        if t.kind == "p" and t.text in ")]}": d -= 1
    return d


def _parse_rewrite(ln, path, i):
    m = re.match(r"//@(unit-rewrite|rewrite|sig-rewrite|pre-rewrite)\s+`(.*?)`\s*=>\s*`(.*?)`\s*(x(\d+|\*))?\s*(removal-is-judged)?\s*$", ln)
    if not m:
        raise AnchorLost("%s:%d: bad rewrite directive" % (path, i + 1))
    if m.group(6):
        # fewer sites of this construct than on the reference tree is a change of the code to be judged (e.g. a sleep that was taken out), not a lost model
        REMOVAL_IS_JUDGED.add(m.group(2))
    where = {"unit-rewrite": "unit", "rewrite": "fn", "sig-rewrite": "sig", "pre-rewrite": "pre"}[m.group(1)]
    cnt = m.group(5)
    if cnt == "*":
        expect = -1          # any number of sites, including none (robust against refactoring)
    elif cnt:
        expect = int(cnt)
    else:
        # default: rewrite every site that is there (possibly none).  A refactoring that removes a site must lead to a proof
        # obligation failing (or to an honest "unsupported construct"), not to a lost anchor; applications are counted and reported.
        expect = None if where == "unit" else -1
    return (m.group(2), m.group(3), expect, where)


# functions (generated names: `Database::inc_value`, `op_replicate_set`, ...) whose extracted BODY Verus / rustc refused on a first attempt (an std call without a specification, a
# construct outside Verus' subset - typically after a refactoring): on the retry they are treated like functions whose anchors are lost - emitted with their contract and without
# their body, resp. the arm left out - so that the rest of the unit is still decided.  Set by verus_unit.run_unit; name -> reason
FORCE_LOST = {}


def generate(vc_path, prelude_path, out_path):
    u = Unit(vc_path)
    body = u.build()
    # call graph among the functions under contract (modular proofs lean on the callee's contract): which contracted functions each body mentions as a call
    short = {}
    for f in u.functions:
        short.setdefault(f["path"].split("::")[-1].split("@")[-1], []).append(f["path"])
    for f in u.functions:
        b = re.sub(r"(?s)/\*@ghost-begin \d+\*/.*?/\*@ghost-end\*/", "", f.pop("body", "") or "")
        calls = set()
        for nm, paths in short.items():
            if re.search(r"(?<![A-Za-z0-9_])%s\s*(::<[^>]*>)?\s*\(" % re.escape(nm), b):
                for pth in paths:
                    if pth != f["path"]: calls.add(pth)
        f["calls"] = sorted(calls)
        # text-formatting macros no rule gave a meaning to (Verus takes them as "any string"): the runner does not attribute a failing clause of such a function to the property
        f["unmodelled"] = sorted(set(re.findall(r"(?<![A-Za-z0-9_])(format|format_args|write|writeln)!\s*\(", b)))
        # does the body build a text by other means than the modelled format! (push_str, push of a char, join, concatenation)?  Verus gives these their concrete meaning, which can
        # never be related to the uninterpreted model of format! - see verus_unit.lost_models
        f["builds_text"] = bool(re.search(r"\.push_str\s*\(|\.push\s*\(\s*'|\.join\s*\(|concat!|\+\s*&|\+\s*\"|\.to_owned\(\)\s*\+|String::with_capacity", b))
    prelude = open(prelude_path, encoding="utf-8").read()
    n_pre = prelude.count("\n")
    text = prelude + body
    with open(out_path, "w", encoding="utf-8") as f:
        f.write(text)
    origin = [dict(owner=None, label=None, kind="prelude", src="prelude.rs:%d" % (k + 1)) for k in range(n_pre)] + u.origin
    return u, origin, text


if __name__ == "__main__":
    vc, pre, out = sys.argv[1:4]
    try:
        u, origin, text = generate(vc, pre, out)
    except AnchorLost as e:
        print("ANCHOR-LOST", e); sys.exit(2)
    print(json.dumps(dict(counts=u.counts, functions=u.functions, dropped=u.dropped), indent=1))
