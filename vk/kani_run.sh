#!/bin/sh
# usage: kani_run.sh <timeout-seconds> <logfile> <harness> [extra cargo-kani args...]
# Runs one Kani harness against the REAL crate in $VERIF_REPO (default /repo); build cache outside /repo, /verif and /tmp.
T="$1"; LOG="$2"; H="$3"; shift 3
REPO="${VERIF_REPO:-/repo}"
cd "$REPO" || exit 2
CARGO_NET_OFFLINE=true timeout -k 10 "$T" cargo kani --target-dir /var/tmp/verif-kani-target --harness "$H" "$@" > "$LOG" 2>&1
echo "exit=$?" >> "$LOG"
