#!/usr/bin/env python3
"""Apply every /verif/seeded/<id>/patch.diff to /repo in turn, run the check of the property it breaks, record what was
reported, and undo the patch straight afterwards.  Writes /verif/seeded/RESULTS.json."""
import os, json, subprocess, sys, glob
VERIF = os.path.dirname(os.path.dirname(os.path.abspath(__file__)))
res = {}
only = sys.argv[1:]
for d in sorted(glob.glob(os.path.join(VERIF, "seeded", "*", "patch.diff"))):
    sd = os.path.dirname(d); name = os.path.basename(sd)
    if only and name not in only: continue
    meta = json.load(open(os.path.join(sd, "meta.json")))
    prop = meta["property"]
    st = subprocess.run(["git", "-C", "/repo", "status", "--porcelain"], capture_output=True, text=True).stdout.strip()
    assert st == "", "/repo is not clean: " + st
    a = subprocess.run(["git", "-C", "/repo", "apply", d], capture_output=True, text=True)
    if a.returncode != 0:
        res[name] = dict(property=prop, applied=False, note=a.stderr[-300:]); continue
    try:
        p = subprocess.run([os.path.join(VERIF, "check"), prop], capture_output=True, text=True, timeout=3600,
                           env=dict(os.environ, VERIF_EVIDENCE_DIR="/var/tmp/verif-seed-evidence"))
    finally:
        subprocess.run(["git", "-C", "/repo", "checkout", "--", "."], check=True)
    lines = [l for l in p.stdout.split("\n") if l.startswith(("VIOLATION", "INFRA", "SUMMARY", "KNOWN"))]
    res[name] = dict(property=prop, applied=True, exit=p.returncode, detected=(p.returncode == 1), output=lines)
    print(name, "exit", p.returncode, "|", "; ".join(l.split(" obligation=")[-1] for l in lines if l.startswith("VIOLATION"))[:200], flush=True)
out = os.path.join(VERIF, "seeded", "RESULTS.json")
old = json.load(open(out)) if os.path.exists(out) and only else {}
old.update(res)
json.dump(old, open(out, "w"), indent=1)
