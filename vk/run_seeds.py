#!/usr/bin/env python3
"""Apply every /verif/seeded/<id>/patch.diff to a scratch worktree of /repo in turn, run the check of the property it breaks against it, record what was
reported, and remove the worktree straight afterwards.  Writes /verif/seeded/RESULTS.json."""
import os, json, subprocess, sys, glob
VERIF = os.path.dirname(os.path.dirname(os.path.abspath(__file__)))
res = {}
WT = os.environ.get("VERIF_SEEDS_WT", "/var/tmp/verif-seed-wt/tree")   # a second invocation running at the same time names its own tree and target
only = sys.argv[1:]
for d in sorted(glob.glob(os.path.join(VERIF, "seeded", "*", "patch.diff"))):
    sd = os.path.dirname(d); name = os.path.basename(sd)
    if only and name not in only: continue
    meta = json.load(open(os.path.join(sd, "meta.json")))
    prop = meta["property"]
    # the seeded tree is ONE scratch worktree of /repo HEAD (outside /repo and /verif, reset between seeds so that the native build stays incremental, removed at the end);
    # the checks are pointed at it with VERIF_REPO, so /repo itself is never touched and a check running on /repo at the same time is not disturbed
    wt = WT
    head = subprocess.run(["git", "-C", "/repo", "rev-parse", "HEAD"], capture_output=True, text=True).stdout.strip()
    have = subprocess.run(["git", "-C", wt, "rev-parse", "HEAD"], capture_output=True, text=True).stdout.strip() if os.path.isdir(wt) else ""
    if have != head:
        subprocess.run(["git", "-C", "/repo", "worktree", "remove", "--force", wt], capture_output=True)
        subprocess.run(["git", "-C", "/repo", "worktree", "prune"], capture_output=True)
        w = subprocess.run(["git", "-C", "/repo", "worktree", "add", "--detach", wt, "HEAD"], capture_output=True, text=True)
        if w.returncode != 0:
            res[name] = dict(property=prop, applied=False, note=w.stderr[-300:]); continue
    subprocess.run(["git", "-C", wt, "checkout", "--", "."], capture_output=True)
    subprocess.run(["git", "-C", wt, "clean", "-fdq"], capture_output=True)
    a = subprocess.run(["git", "-C", wt, "apply", d], capture_output=True, text=True)
    if a.returncode != 0:
        res[name] = dict(property=prop, applied=False, note=a.stderr[-300:]); continue
    try:
        p = subprocess.run([os.path.join(VERIF, "check"), prop], capture_output=True, text=True, timeout=3600,
                           env=dict(os.environ, VERIF_EVIDENCE_DIR="/var/tmp/verif-seed-evidence", VERIF_REPO=wt, VERIF_REPLAY_TARGET=os.environ.get("VERIF_SEEDS_TARGET", "/var/tmp/verif-replay-target-seeds")))
    finally:
        subprocess.run(["git", "-C", wt, "checkout", "--", "."], capture_output=True)
    lines = [l for l in p.stdout.split("\n") if l.startswith(("VIOLATION", "INFRA", "SUMMARY", "KNOWN"))]
    res[name] = dict(property=prop, applied=True, exit=p.returncode, detected=(p.returncode == 1), output=lines)
    print(name, "exit", p.returncode, "|", "; ".join(l.split(" obligation=")[-1] for l in lines if l.startswith("VIOLATION"))[:200], flush=True)
subprocess.run(["git", "-C", "/repo", "worktree", "remove", "--force", WT], capture_output=True)
subprocess.run(["git", "-C", "/repo", "worktree", "prune"], capture_output=True)
out = os.path.join(VERIF, "seeded", "RESULTS.json")
old = json.load(open(out)) if os.path.exists(out) else {}   # entries of seeds not run this time are kept (another invocation may have written them meanwhile)
old = {k: v for k, v in old.items() if os.path.isdir(os.path.join(VERIF, "seeded", k))}
old.update(res)
json.dump(old, open(out, "w"), indent=1)
