"""Minimal Rust lexer used by the mechanical extractor.

It understands exactly what is needed to cut items out of /repo/src verbatim and to
rewrite call patterns without touching strings or comments: line / nested block
comments, string / raw-string / byte-string literals, char literals vs lifetimes,
identifiers, numbers and single-character punctuation.  No regex-on-lines.
"""
from collections import namedtuple

Tok = namedtuple("Tok", "kind text start end")
# kinds: ws, lcom, bcom, str, chr, life, id, num, p


def lex(src):
    toks = []
    i, n = 0, len(src)
    while i < n:
        c = src[i]
        if c in " \t\r\n":
            j = i
            while j < n and src[j] in " \t\r\n":
                j += 1
            toks.append(Tok("ws", src[i:j], i, j)); i = j; continue
        if src.startswith("//", i):
            j = src.find("\n", i)
            j = n if j < 0 else j
            toks.append(Tok("lcom", src[i:j], i, j)); i = j; continue
        if src.startswith("/*", i):
            depth, j = 1, i + 2
            while j < n and depth:
                if src.startswith("/*", j): depth += 1; j += 2
                elif src.startswith("*/", j): depth -= 1; j += 2
                else: j += 1
            toks.append(Tok("bcom", src[i:j], i, j)); i = j; continue
        # raw strings r"..", r#".."#, br"..", byte strings b"..", byte chars b'.'
        if c in "rb":
            j = i
            if src.startswith("br", i): j = i + 2
            elif c == "r": j = i + 1
            elif c == "b": j = i + 1
            if c == "b" and j == i + 1 and j < n and src[j] == '"':
                k = _scan_string(src, j)
                toks.append(Tok("str", src[i:k], i, k)); i = k; continue
            if c == "b" and j == i + 1 and j < n and src[j] == "'":
                k = _scan_char(src, j)
                if k > 0:
                    toks.append(Tok("chr", src[i:k], i, k)); i = k; continue
            if (c == "r" or src.startswith("br", i)) and j < n and src[j] in '#"':
                h = j
                while h < n and src[h] == "#": h += 1
                if h < n and src[h] == '"':
                    close = '"' + "#" * (h - j)
                    k = src.find(close, h + 1)
                    k = n if k < 0 else k + len(close)
                    toks.append(Tok("str", src[i:k], i, k)); i = k; continue
        if c == '"':
            k = _scan_string(src, i)
            toks.append(Tok("str", src[i:k], i, k)); i = k; continue
        if c == "'":
            k = _scan_char(src, i)
            if k > 0:
                toks.append(Tok("chr", src[i:k], i, k)); i = k; continue
            # lifetime
            j = i + 1
            while j < n and (src[j].isalnum() or src[j] == "_"): j += 1
            toks.append(Tok("life", src[i:j], i, j)); i = j; continue
        if c.isalpha() or c == "_":
            j = i
            while j < n and (src[j].isalnum() or src[j] == "_"): j += 1
            toks.append(Tok("id", src[i:j], i, j)); i = j; continue
        if c.isdigit():
            j = i
            while j < n and (src[j].isalnum() or src[j] == "_" or
                             (src[j] == "." and j + 1 < n and src[j + 1].isdigit())):
                j += 1
            toks.append(Tok("num", src[i:j], i, j)); i = j; continue
        toks.append(Tok("p", c, i, i + 1)); i += 1
    return toks


def _scan_string(src, i):
    # src[i] == '"'
    j, n = i + 1, len(src)
    while j < n:
        if src[j] == "\\": j += 2; continue
        if src[j] == '"': return j + 1
        j += 1
    return n


def _scan_char(src, i):
    """return end index if src[i:] starts a char literal, else -1 (lifetime)"""
    n = len(src)
    if i + 1 >= n: return -1
    if src[i + 1] == "\\":
        j = i + 2
        # escape: \n \' \\ \x41 \u{..}
        if j < n and src[j] == "u":
            k = src.find("}", j)
            if k > 0 and k + 1 < n and src[k + 1] == "'": return k + 2
            return -1
        if j < n and src[j] == "x":
            if j + 3 < n and src[j + 3] == "'": return j + 4
            return -1
        if j + 1 < n and src[j + 1] == "'": return j + 2
        return -1
    # 'a' : one code point then a quote
    if i + 2 < n and src[i + 2] == "'" and src[i + 1] != "'":
        return i + 3
    return -1


CODE = ("id", "num", "p", "str", "chr", "life")


def code_indices(toks):
    """indices of tokens that are code (not whitespace / comments)"""
    return [k for k, t in enumerate(toks) if t.kind in CODE]


OPEN = {"(": ")", "[": "]", "{": "}"}
CLOSE = {v: k for k, v in OPEN.items()}


def match_close(toks, k):
    """toks[k] is an opening bracket token; return index of its matching close"""
    want = []
    for j in range(k, len(toks)):
        t = toks[j]
        if t.kind != "p": continue
        if t.text in OPEN: want.append(OPEN[t.text])
        elif t.text in CLOSE:
            if not want or want[-1] != t.text:
                raise ValueError("unbalanced bracket at offset %d" % t.start)
            want.pop()
            if not want: return j
    raise ValueError("no matching close for offset %d" % toks[k].start)
