"""Committed mutation self-test (thorough tier): textual mutants of /repo/src, each of which must turn at least one obligation of its
property red.  A surviving mutant is reported in the evidence as a coverage gap - never as a violation.
(file, from, to) must match exactly once; a mutant whose text is no longer found is reported as `stale`."""

M = [
    # ---- C01
    ("C01", "remove: drop tombstones / keep New keys swapped", "src/lib/bo.rs", "if value.state == ValueStatus::New {\n                            let mut db = self.map.write().unwrap();", "if value.state != ValueStatus::New {\n                            let mut db = self.map.write().unwrap();"),
    ("C01", "increment subtracts", "src/lib/bo.rs", "match current.checked_add(inc) {", "match current.checked_sub(inc) {"),
    ("C01", "get answers the empty string for a missing key", "src/lib/db_ops.rs", 'None => (String::from("<Empty>"), 1 as i32),', 'None => (String::from(""), 1 as i32),'),
    ("C01", "set swaps the two disk addresses", "src/lib/bo.rs", "                old_version.value_disk_addr,\n                old_version.key_disk_addr,\n                change.opp_id,", "                old_version.key_disk_addr,\n                old_version.value_disk_addr,\n                change.opp_id,"),
    ("C01", "tombstone keeps the removed value", "src/lib/bo.rs", '&String::from("<Empty>"),\n                                value.version.saturating_add(1),', '&value.value,\n                                value.version.saturating_add(1),'),
    # ---- C02
    ("C02", "version check <= becomes <", "src/lib/bo.rs", "if new_version <= old_version.version && !change.allow_save_version() {", "if new_version < old_version.version && !change.allow_save_version() {"),
    ("C02", "unversioned marker -1 becomes -3", "src/lib/bo.rs", "} else if self.version == -1 {", "} else if self.version == -3 {"),
    ("C02", "remove keeps the version", "src/lib/bo.rs", "value.version.saturating_add(1),\n                                ValueStatus::Deleted,", "value.version,\n                                ValueStatus::Deleted,"),
    ("C02", "marker honoured on client writes again", "src/lib/bo.rs", "self.version == IN_CONFLICT_RESOLUTION_KEY_VERSION && self.resolve_conflict", "self.version == IN_CONFLICT_RESOLUTION_KEY_VERSION"),
    ("C02", "increment keeps the version", "src/lib/bo.rs", "version: old.version.saturating_add(1),", "version: old.version,"),
    # ---- C03
    ("C03", "accepted set of an existing key notifies nobody", "src/lib/bo.rs", "                change.opp_id,\n            );\n            self.notify_watchers(change.key.clone(), change.value.clone(), new_version);\n        } else {", "                change.opp_id,\n            );\n        } else {"),
    ("C03", "notification carries the old value", "src/lib/bo.rs", "            self.notify_watchers(change.key.clone(), change.value.clone(), new_version);\n        } else {", "            self.notify_watchers(change.key.clone(), old_version.value.clone(), new_version);\n        } else {"),
    # ---- C08
    ("C08", "the protected token key is renamed", "src/lib/bo.rs", "pub const TOKEN_KEY: &'static str = \"$$token\";", "pub const TOKEN_KEY: &'static str = \"$$tokem\";"),
    ("C08", "has_permission lets everybody at $$ keys", "src/lib/security.rs", "    if key.starts_with(SECURY_KEYS_PREFIX) {\n        client.is_admin_auth()", "    if key.starts_with(SECURY_KEYS_PREFIX) {\n        true"),
    # ---- C09
    ("C09", "apply_if_auth inverted", "src/lib/security.rs", "    if auth.load(Ordering::SeqCst) {\n        opp()", "    if !auth.load(Ordering::SeqCst) {\n        opp()"),
    ("C09", "permission check skipped when a key is given", "src/lib/security.rs", "if key == None || has_permission(client, key.unwrap(), db, &permission_required) {", "if key != None || has_permission(client, key.unwrap(), db, &permission_required) {"),
    ("C09", "missing $$token accepted as valid", "src/lib/db_ops.rs", "            value == token\n        }\n        None => false,\n    }\n}\n\npub fn is_valid_user_token", "            value == token\n        }\n        None => true,\n    }\n}\n\npub fn is_valid_user_token"),
    ("C09", "user without list gets access", "src/lib/security.rs", "None => client.selected_db_user_name().is_none(),", "None => true,"),
    ("C09", "set asks for read permission only", "src/lib/process_request.rs", "                respose\n            },\n            PermissionKind::Write,\n        ),\n\n        Request::ReplicateRemove", "                respose\n            },\n            PermissionKind::Read,\n        ),\n\n        Request::ReplicateRemove"),
    ("C09", "remove is guarded on another key", "src/lib/process_request.rs", "            &key,\n            &|_db| remove_key(&key, _db),", "            &String::from(\"x\"),\n            &|_db| remove_key(&key, _db),"),
    ("C08", "get is guarded on another key", "src/lib/process_request.rs", "            &key,\n            &|_db| get_key_value(&key, &client.sender, _db),", "            &String::from(\"x\"),\n            &|_db| get_key_value(&key, &client.sender, _db),"),
    ("C09", "auth accepts user OR password", "src/lib/process_request.rs", "if user == valid_user && password == valid_pwd {", "if user == valid_user || password == valid_pwd {"),
    ("C09", "any user token is accepted by use-db", "src/lib/process_request.rs", "if is_valid_user_token(&token, &user_name, db) {", "if is_valid_user_token(&token, &user_name, db) || token.len() > 3 {"),
    ("C09", "failed use-db clears the selected database", "src/lib/process_request.rs", "                            } else {\n                                Response::Error {\n                                    msg: \"Invalid token\".to_string(),\n                                }\n                            }\n                        }\n                        None => {", "                            } else {\n                                let _ = std::mem::replace(&mut *db_name_state, None);\n                                Response::Error {\n                                    msg: \"Invalid token\".to_string(),\n                                }\n                            }\n                        }\n                        None => {"),
    # ---- C10
    ("C10", "unchecked increment", "src/lib/bo.rs", "let next = match current.checked_add(inc) {\n                        Some(next) => next.to_string(),", "let next = match Some(current + inc) {\n                        Some(next) => next.to_string(),"),
    ("C10", "unchecked version step", "src/lib/bo.rs", "            self.version.saturating_add(1)\n        }", "            self.version + 1\n        }"),
    ("C10", "conflict queue unwrap is back", "src/lib/consensus_ops.rs", "None => (old_value.to_string(), version),", "None => (pendding_conflict.first().unwrap().to_string(), version),"),
    ("C10", "parser unwrap", "src/lib/parse_request.rs", "        Some(id_str) => match id_str.parse::<u64>() {\n            Ok(id) => id,\n            Err(_) => {\n                log::debug!(\"Invalid request Id\");\n                return Err(format!(\"Invalid request Id\"));\n            }\n        },", "        Some(id_str) => id_str.parse::<u64>().unwrap(),"),
    # ---- C12
    ("C12", "no_more_smaller widened", "src/lib/disk_ops.rs", "let no_more_smaller = possible_records <= 1 && (opp_time > since);", "let no_more_smaller = possible_records <= 2 && (opp_time > since);"),
    ("C12", "look-back removed", "src/lib/disk_ops.rs", "while opp_time == since && seek_point >= size_as_u64 {", "while opp_time == since && seek_point >= size_as_u64 && false {"),
    ("C12", "record written key-first", "src/lib/disk_ops.rs", "stream.write(&opp_id.to_le_bytes()).unwrap(); //8\n        stream.write(&key.to_le_bytes()).unwrap(); // 8", "stream.write(&key.to_le_bytes()).unwrap(); //8\n        stream.write(&opp_id.to_le_bytes()).unwrap(); // 8"),
    ("C12", "last_op_time reads the record before the last", "src/lib/disk_ops.rs", "let last_record_position = total_size - size_as_u64;", "let last_record_position = if total_size >= 2 * size_as_u64 { total_size - 2 * size_as_u64 } else { 0 };"),
    ("C12", "search halves towards the wrong side", "src/lib/disk_ops.rs", "        if opp_time < since {\n            min = seek_point;", "        if opp_time < since {\n            min = seek_point + size_as_u64;"),
    # ---- C13
    ("C13", "arbiter test inverted", "src/lib/consensus_ops.rs", "if !self.has_arbiter_connected() {", "if self.has_arbiter_connected() {"),
    ("C13", "conflicting write applied", "src/lib/consensus_ops.rs", "                                &change.key,\n                                &old_value.value,\n                                IN_CONFLICT_RESOLUTION_KEY_VERSION,", "                                &change.key,\n                                &change.value,\n                                IN_CONFLICT_RESOLUTION_KEY_VERSION,"),
    ("C13", "pending test inverted in resolve", "src/lib/consensus_ops.rs", "if self.has_pendding_conflict(&change.key) {", "if !self.has_pendding_conflict(&change.key) {"),
    ("C13", "notice recorded under the conflicted key itself", "src/lib/consensus_ops.rs", "Change::new(conflitct_key.clone(), resolve_message, -1);", "Change::new(change.key.clone(), resolve_message, -1);"),
    # ---- C15
    ("C15", "ack counts duplicates instead of first acks", "src/lib/replication_ops.rs", "                    if !is_ack {", "                    if is_ack {"),
    ("C15", "ack not counted", "src/lib/replication_ops.rs", "                        self.ack_count.fetch_add(1, Ordering::Relaxed);\n                        true", "                        true"),
    ("C15", "operation dropped on first ack", "src/lib/replication_ops.rs", "if replicated_opp.is_full_acknowledged() {", "if replicated_opp.is_full_acknowledged() || true {"),
    ("C15", "registration does not count", "src/lib/replication_ops.rs", "        self.replicate_count.fetch_add(1, Ordering::Relaxed);\n        self.replications", "        self.replications"),
    # ---- C16
    ("C16", "every new key gets id 0", "src/lib/replication_ops.rs", "keys_map.insert(key.clone(), id);", "keys_map.insert(key.clone(), 0);"),
    ("C16", "next_db_id stops at a used id", "src/lib/bo.rs", "while ids.contains_key(&(id as u64)) {", "while !ids.contains_key(&(id as u64)) && id < 3 {"),
    ("C16", "id maps disagree", "src/lib/replication_ops.rs", "id_keys_map.insert(id, key.to_string());", "id_keys_map.insert(id + 1, key.to_string());"),
    # ---- C17
    ("C17", "use-db does not release the previous database (user-token branch)", "src/lib/process_request.rs", "                                set_connection_counter(db, &dbs);\n                                release_previous_db(previous, &dbs_map, &dbs);\n                                Response::Ok {}\n                            } else {\n                                Response::Error {\n                                    msg: \"Invalid token\".to_string(),\n                                }\n                            }\n                        }\n                        None => {", "                                set_connection_counter(db, &dbs);\n                                Response::Ok {}\n                            } else {\n                                Response::Error {\n                                    msg: \"Invalid token\".to_string(),\n                                }\n                            }\n                        }\n                        None => {"),
    ("C17", "a refused use-db still counts a connection", "src/lib/process_request.rs", "                            } else {\n                                Response::Error {\n                                    msg: \"Invalid token\".to_string(),\n                                }\n                            }\n                        }\n                    }\n                }", "                            } else {\n                                db.inc_connections();\n                                Response::Error {\n                                    msg: \"Invalid token\".to_string(),\n                                }\n                            }\n                        }\n                    }\n                }"),
    ("C17", "disconnect decrements twice", "src/lib/bo.rs", "                        db.dec_connections();\n                        set_connection_counter(db, &dbs);", "                        db.dec_connections();\n                        db.dec_connections();\n                        set_connection_counter(db, &dbs);"),
    ("C17", "inc adds two", "src/lib/bo.rs", "*connections.get_mut() = *connections.get_mut() + 1;", "*connections.get_mut() = *connections.get_mut() + 2;"),
    ("C17", "$connections written with a stale text", "src/lib/db_ops.rs", "let value = db.connections_count().to_string();\n    return set_key_value(CONNECTIONS_KEY.to_string(), value, -1, db, &dbs);", "let value = db.connections_count().to_string();\n    return set_key_value(CONNECTIONS_KEY.to_string(), String::from(\"0\"), -1, db, &dbs);"),
    # ---- C07
    ("C07", "younger candidate makes the node yield", "src/lib/election_ops.rs", "} else if candidate_id > dbs.process_id {", "} else if candidate_id < dbs.process_id {"),
    ("C07", "equal start times contest", "src/lib/election_ops.rs", "if candidate_id == dbs.process_id {", "if candidate_id == dbs.process_id && dbs.is_primary() {"),
    ("C07", "yielding node stays StartingUp", "src/lib/election_ops.rs", "        dbs.node_state\n            .swap(ClusterRole::Secoundary as usize, Ordering::Relaxed);\n    }\n    Response::Ok {}", "    }\n    Response::Ok {}"),
    ("C07", "ack wait never times out", "src/lib/election_ops.rs", "                if start_time > *NUN_ELECTION_TIMEOUT {\n                    log::info!(\"Election timeout, will claim as primary\");\n                    election_win(&dbs);\n                    return;\n                }\n", ""),
    ("C07", "registration wait ignores the timeout", "src/lib/election_ops.rs", "while opp.is_none() && start_time < *NUN_ELECTION_TIMEOUT {", "while opp.is_none() {"),
    ("C07", "winner stays StartingUp", "src/lib/election_ops.rs", "        .swap(ClusterRole::Primary as usize, Ordering::Relaxed);\n    Response::Ok {}", "        .swap(ClusterRole::StartingUp as usize, Ordering::Relaxed);\n    Response::Ok {}"),
    ("C07", "candidacy carries the internal address", "src/lib/election_ops.rs", "        dbs.process_id, dbs.external_tcp_address\n    )) {", "        dbs.process_id, dbs.tcp_address\n    )) {"),
    ("C07", "single node does not win", "src/lib/election_ops.rs", "    if dbs.count_cluster_members() <= 1 {", "    if dbs.count_cluster_members() < 1 {"),
    ("C07", "eligible means not secondary", "src/lib/bo.rs", "return self.get_role() == ClusterRole::StartingUp;", "return self.get_role() != ClusterRole::Secoundary;"),
    # ---- C20
    ("C20", "leftover messages are not drained", "src/lib/network/http_ops.rs", "            while let Ok(Some(_)) = receiver.try_next() {}\n", ""),
    ("C20", "only refused commands are drained", "src/lib/network/http_ops.rs", "                    responses.push(msg.clone());\n                    log::debug!(\"Http response Error: {}\", msg);\n                }\n                Response::VersionError {", "                    responses.push(msg.clone());\n                    while let Ok(Some(_)) = receiver.try_next() {}\n                    log::debug!(\"Http response Error: {}\", msg);\n                }\n                Response::VersionError {", "            while let Ok(Some(_)) = receiver.try_next() {}\n        }\n    }\n", "        }\n    }\n"),
    ("C20", "an empty queue gives no entry", "src/lib/network/http_ops.rs", "                            _ => {\n                                responses.push(\"empty\".to_string());", "                            _ => {"),
    ("C20", "blank statements get an entry", "src/lib/network/http_ops.rs", "        if clean_command != \"\" {", "        if clean_command != \"\" || responses.len() == 1 {"),
    ("C20", "version errors report the queued message", "src/lib/network/http_ops.rs", "                    db: _,\n                } => {\n                    responses.push(msg.clone());", "                    db: _,\n                } => {\n                    responses.push(match receiver.try_next() { Ok(Some(m)) => m, _ => msg.clone() });"),
    ("C20", "session keeps its connection count", "src/lib/network/http_ops.rs", "    client.left(&dbs);\n", ""),
    ("C20", "session keeps its subscriptions", "src/lib/network/http_ops.rs", "    process_request(\"unwatch-all\", dbs, client); //To dicsconect\n", ""),
    # ---- C19
    ("C19", "older change wins", "src/lib/consensus_ops.rs", "if change.opp_id > old_value.opp_id {", "if change.opp_id < old_value.opp_id {"),
    ("C19", "reply names the rejected value", "src/lib/consensus_ops.rs", "                                value: old_value.value.to_string(),", "                                value: change.value.to_string(),"),
    ("C19", "resolving change is an ordinary change", "src/lib/bo.rs", "            opp_id: self.opp_id,\n            resolve_conflict: true,", "            opp_id: self.opp_id,\n            resolve_conflict: false,"),
]
