"""Generate one Verus unit from /repo, run Verus on it, map every diagnostic back to a named
obligation.  Used by vk/runner.py.  Never decides exit codes itself."""
import os, re, sys, json, subprocess, time, hashlib

HERE = os.path.dirname(os.path.abspath(__file__))
sys.path.insert(0, HERE)
import extract
from extract import AnchorLost

VERIF = os.path.dirname(HERE)
# generated units go to /verif/build for the real tree; a check pointed at another tree (VERIF_REPO: seeded / refactored scratch worktrees) gets a build directory of its own,
# so that it can run next to a check of /repo without the two overwriting each other's generated files; VERIF_BUILD overrides both
_repo = os.environ.get("VERIF_REPO", "/repo")
BUILD = os.environ.get("VERIF_BUILD") or (os.path.join(VERIF, "build") if _repo == "/repo" else
                                           "/var/tmp/verif-build-" + __import__("hashlib").sha1(_repo.encode()).hexdigest()[:8])

PROOF_FAILURE_PATTERNS = [
    ("postcondition", re.compile(r"postcondition not satisfied|unable to prove post-condition of closure")),
    ("precondition", re.compile(r"precondition not satisfied|fails to satisfy `callee.requires")),
    ("assertion", re.compile(r"assertion failed|assert_by|assert_forall")),
    ("overflow", re.compile(r"possible arithmetic underflow/overflow|possible bit shift|possible division by zero")),
    ("invariant", re.compile(r"invariant not satisfied")),
    ("decreases", re.compile(r"decreases not satisfied|could not prove termination")),
    ("unwrap", re.compile(r"unreachable|panic")),
]
INFRA_PATTERNS = re.compile(r"rlimit|Resource limit|timed out|not supported|unsupported|internal error|"
                            r"cyclic self-reference|z3|solver", re.I)


class Infra(Exception):
    pass


def classify(msg):
    for kind, rx in PROOF_FAILURE_PATTERNS:
        if rx.search(msg):
            return kind
    return None


MODEL_RULES = ("R6.", "R8.", "R11.", "R12b.")
SHAPE_FILE = os.path.join(HERE, "shape_baseline.json")


def vc_digest(vc):
    """digest of the contract file and of the files it includes: a reference shape is only meaningful for the directives it was taken with"""
    h = hashlib.sha256()
    txt = open(vc, encoding="utf-8").read()
    h.update(txt.encode())
    for inc in sorted(set(re.findall(r"(?m)^//@include\s+(\S+)", txt))):
        ip = os.path.join(os.path.dirname(vc), inc)
        if os.path.exists(ip):
            h.update(open(ip, encoding="utf-8").read().encode())
            for inc2 in sorted(set(re.findall(r"(?m)^//@include\s+(\S+)", open(ip, encoding="utf-8").read()))):
                ip2 = os.path.join(os.path.dirname(vc), inc2)
                if os.path.exists(ip2): h.update(open(ip2, encoding="utf-8").read().encode())
    return h.hexdigest()[:16]


def shape_baseline(unit_name, vc):
    try:
        b = json.load(open(SHAPE_FILE)).get(unit_name)
    except Exception:
        return None
    if not b or b.get("vc") != vc_digest(vc):
        return None
    return b.get("functions", {})


def lost_models(ref, now, builds_text=False):
    """modelling substitutions that applied less often than on the reference tree"""
    if not ref:
        return []
    now = now or {}
    judged = ["`%s`" % frm for frm in extract.REMOVAL_IS_JUDGED]
    out = []
    for k, n in sorted(ref.items()):
        if not (k.startswith(MODEL_RULES) and now.get(k, 0) < n) or any(j in k for j in judged):
            continue
        # only substitutions whose source construct Verus would ACCEPT un-modelled are a false-alarm risk: comparisons through a PartialEq impl without an equality spec come
        # out as "any bool".  Other constructs left without their rule (std calls without a specification, iterator chains) make Verus refuse the unit, which is INFRA already.
        m = re.match(r"R\d+b?\.\w[\w-]* `(.*?)` =>", k)
        pattern = m.group(1) if m else k
        # ... and text formatting: `format!` is modelled as an UNINTERPRETED function of its literal and arguments (nfmt!).  A function that builds the same text another way
        # (push_str, join, concatenation - all of which Verus gives their concrete meaning) can never be related to that model, so a clause about the text fails although nothing
        # changed (harmless/C04/h7: get_replicate_increment_message re-spelled with push_str raised VIOLATIONs in eleven properties)
        # (only when the function now BUILDS a text by such other means: a format! that was simply removed - a line no longer sent - is a change of the code to be judged)
        if re.search(r"(==|!=)", pattern) or (builds_text and re.match(r"format(_args)?!\(", pattern)):
            out.append("%s: %d -> %d" % (k[:90], n, now.get(k, 0)))
    return out


def labels_of(label):
    """a label comment may carry several ids: `C01.x, C03.y`"""
    if not label:
        return []
    return [x.strip() for x in label.split(",") if x.strip()]


def run_unit(unit_name, rlimit=None, extra_args=()):
    extract.FORCE_LOST.clear()
    r = _run_unit(unit_name, rlimit, extra_args)
    # a body Verus / rustc refuses (an std call without a specification, a construct outside the subset - typically after a refactoring) makes the WHOLE unit undecided; keep the
    # failure local instead: the functions the compile errors point into are retried as functions whose extraction failed (contract kept, body not verified, reported under `lost`),
    # at most twice - what they carry is undecided, the rest of the unit is decided as before
    for _attempt in range(4):
        owners = r.get("compile_error_owners") or {}
        if not owners or not r["infra"]:
            break
        known = set(f["path"] for f in r["functions"] if not f["external"])
        pick = {o: why for o, why in owners.items() if o in known and o not in extract.FORCE_LOST}
        if not pick:
            break
        extract.FORCE_LOST.update(pick)
        try:
            r = _run_unit(unit_name, rlimit, extra_args)
        except Exception:
            extract.FORCE_LOST.clear()
            raise
    try:
        if rlimit is None and any("rlimit" in x.lower() or "resource limit" in x.lower() for x in r["infra"]):
            # a solver resource limit is not a verdict: retry once with a ten times larger budget (the same functions left out)
            r2 = _run_unit(unit_name, 100, extra_args)
            r2["retried_with_rlimit"] = 100
            return r2
        return r
    finally:
        extract.FORCE_LOST.clear()


def _run_unit(unit_name, rlimit=None, extra_args=()):
    """returns dict(unit, obligations{id->info}, failures[list], canaries, functions, counts, dropped,
    trusted[list], cmd, wall_s, verus_summary, gen_path)"""
    os.makedirs(BUILD, exist_ok=True)
    vc = os.path.join(VERIF, "contracts", unit_name + ".vc")
    out = os.path.join(BUILD, unit_name + ".rs")
    t0 = time.time()
    extract._sources.clear()
    u, origin, text = extract.generate(vc, os.path.join(HERE, "prelude.rs"), out)  # may raise AnchorLost
    lines = text.split("\n")

    # ---- obligations declared by the generated file
    obligations = {}   # id -> dict(fn, label, kind)
    fn_labels = {}
    for k, o in enumerate(origin):
        if o["kind"] in ("spec", "raw", "ghost") and o["label"] and o["owner"]:
            for lab in labels_of(o["label"]):
                if lab.startswith("canary") or lab == "trusted" or lab.startswith("~"):
                    continue
                oid = "%s::%s" % (o["owner"], lab)
                if oid not in obligations:
                    obligations[oid] = dict(fn=o["owner"], label=lab, kind="contract", first_line=k + 1)
    for f in u.functions:
        if not f["external"]:
            oid = "%s::safety" % f["path"]
            obligations[oid] = dict(fn=f["path"], label="C10.safety", kind="safety",
                                    src="%s:%d" % (f["file"], f["line"]))
    m = re.search(r"(?m)^//@expect-labels\s+(\d+)", open(vc).read())
    n_contract = len([1 for o in obligations.values() if o["kind"] == "contract"])
    if not m:
        raise Infra("%s.vc has no //@expect-labels header" % unit_name)
    if (int(m.group(1)) != n_contract and not u.lost) or n_contract == 0:   # (functions whose extraction failed locally carry fewer labelled obligations)
        raise Infra("%s.vc declares %s labelled obligations but the generated unit has %d" % (
            unit_name, m.group(1), n_contract))

    # ---- trusted-base scan
    trusted = []
    allow = ("external_body", "assume_specification", "axiom", "assume(", "admit(", "external_type_specification",
             "exec_allows_no_decreases_clause", "uninterp")
    for k, ln in enumerate(lines):
        code = ln.split("//")[0]
        for a in allow:
            if a in code:
                desc = ln.strip()
                # attach the next non-attribute line for context
                j = k + 1
                while j < len(lines) and (lines[j].strip().startswith("#[") or not lines[j].strip()):
                    j += 1
                nxt = lines[j].strip() if j < len(lines) else ""
                trusted.append("%s:%d `%s`%s" % (os.path.basename(out), k + 1, desc[:120],
                                                (" -> `%s`" % nxt[:120]) if a in ("external_body", "exec_allows_no_decreases_clause", "external_type_specification") else ""))
                break
    bad = [t for t in trusted if "assume(" in t or "admit(" in t]
    if bad:
        raise Infra("assume()/admit() present in generated unit: %s" % bad[:3])

    # ---- run verus
    cmd = ["verus", os.path.basename(out), "--output-json", "--time", "--multiple-errors", "50",
           "--error-format=json"] + list(extra_args)
    if rlimit:
        cmd += ["--rlimit", str(rlimit)]
    env = dict(os.environ)
    p = subprocess.run(cmd, cwd=BUILD, capture_output=True, text=True, env=env, timeout=1800)
    wall = time.time() - t0
    try:
        summary = json.loads(p.stdout)
    except Exception:
        summary = None
    diags = []
    for ln in p.stderr.split("\n"):
        ln = ln.strip()
        if not ln.startswith("{"):
            continue
        try:
            diags.append(json.loads(ln))
        except Exception:
            pass
    failures, canary_failed, infra = [], set(), []
    compile_error_owners = {}
    for d in diags:
        if d.get("level") != "error":
            continue
        msg = d.get("message", "")
        if msg.startswith("aborting due to"):
            continue
        prim = [s for s in d.get("spans", []) if s.get("is_primary")]
        kind = classify(msg)
        if not prim or kind is None or d.get("code"):
            infra.append(msg + (" @%s:%s" % (prim[0]["file_name"], prim[0]["line_start"]) if prim else ""))
            # which function under contract the compile error points into (run_unit retries with that body left out)
            # (a solver resource limit is not a refused body: it is retried with a larger budget by run_unit and stays an undecided verdict of the whole function)
            if prim and not re.search(r"rlimit|resource limit|timed? ?out", msg, re.I) and os.path.basename(prim[0].get("file_name", "")) == os.path.basename(out) and 0 < prim[0]["line_start"] <= len(origin):
                ow = origin[prim[0]["line_start"] - 1].get("owner")
                if ow and origin[prim[0]["line_start"] - 1].get("kind") not in ("spec", "raw", "ghost", "prelude"):
                    compile_error_owners.setdefault(ow, msg[:160])
            continue
        sp = prim[0]
        macro_name = None
        if os.path.basename(sp.get("file_name", "")) != os.path.basename(out):
            # the primary span lies inside a std macro (panic!, unreachable!, assert!, ...): walk the expansion chain back to our file
            e = sp.get("expansion")
            while e:
                macro_name = e.get("macro_decl_name") or macro_name
                if os.path.basename(e["span"].get("file_name", "")) == os.path.basename(out):
                    sp = e["span"]; break
                e = e["span"].get("expansion")
            else:
                infra.append(msg + " @" + str(prim[0].get("file_name")))
                continue
            if kind == "precondition":
                kind = "unwrap"   # a panicking macro is reachable
                msg = "%s is reachable (%s)" % (macro_name or "a panicking macro", msg)
        ln_no = sp["line_start"]
        o = origin[ln_no - 1] if 0 < ln_no <= len(origin) else dict(owner=None, label=None, kind="?", src=None)
        # the label of a multi-line clause is the label in force at its first line
        owner = o["owner"]
        srctext = (sp.get("text") or [{}])[0].get("text", "").strip()
        exit_spans = [s for s in d.get("spans", []) if not s.get("is_primary")]
        where = None
        if exit_spans:
            eo = origin[exit_spans[0]["line_start"] - 1]
            where = dict(gen_line=exit_spans[0]["line_start"], src=eo.get("src"), note=exit_spans[0].get("label"))
        if owner and owner.startswith("canary"):
            canary_failed.add(owner)
            continue
        if kind == "precondition":
            # primary span is the call site; the failed requires clause is the secondary span
            owner = o["owner"]
        labs = [x.lstrip("~") for x in labels_of(o["label"])] if o["kind"] in ("spec", "raw") or (o["kind"] == "ghost" and o["label"]) else []
        callee_clause = None
        if kind == "precondition" and not labs:
            # the call site is the primary span; the violated `requires` clause of the callee is a secondary span: name the failure after it
            for sp2 in d.get("spans", []):
                if not sp2.get("is_primary") and 0 < sp2["line_start"] <= len(origin):
                    o2 = origin[sp2["line_start"] - 1]
                    if o2["kind"] in ("spec", "raw") and o2["label"]:
                        labs = [x.lstrip("~") for x in labels_of(o2["label"])]
                        callee_clause = "%s requires (%s)" % (o2["owner"], o2["label"].replace("~", ""))
                        break
        rec = dict(fn=owner, kind=kind, message=msg if not callee_clause else "%s: precondition of the callee not established at this call - %s" % (msg, callee_clause),
                   gen_line=ln_no, src=o.get("src"), text=srctext[:160], where=where, origin_kind=o["kind"])
        if labs and kind in ("postcondition", "invariant", "assertion", "precondition"):
            for lab in labs:
                r2 = dict(rec); r2["obligation"] = "%s::%s" % (owner, lab); r2["label"] = lab
                failures.append(r2)
        else:
            norm = re.sub(r"\s+", " ", srctext)[:80]
            rec["obligation"] = "%s::safety" % owner
            rec["label"] = "C10.safety" if kind == "overflow" else "proof-step"
            rec["detail"] = "%s: %s" % (kind, norm)
            failures.append(rec)

    # ---- what is NOT a violation although Verus reports an error inside a function under contract (false-alarm guards):
    # (a) a failed `assert` of an inserted proof block that carries no label is a proof HINT that no longer goes through (Verus assumes it afterwards, so it hides whether the
    #     contract clause it served still holds): undecided.  (Ghost assertions that state a fact of the property carry a label and are obligations like any clause.)
    # (b) a function whose extracted text still contains a text-formatting macro (format!, format_args!, write!) has code left that no rule gave a meaning to - Verus accepts
    #     these as "any string" - so a clause about the text it builds cannot be attributed to the property: undecided.  (A modelled construct that was merely REMOVED - a sleep,
    #     a call - leaves nothing unmodelled behind and is judged normally.)
    unmodelled = {f["path"]: f["unmodelled"] for f in u.functions if f.get("unmodelled")}
    builds_text = {f["path"]: True for f in u.functions if f.get("builds_text")}
    # (c) a function in which a substitution that models a COMPARISON (`==` / `!=` in its pattern) applied less often than on the reference tree (vk/shape_baseline.json, taken
    #     on the unchanged tree; ignored when the .vc file changed since) may have the comparison left in another spelling (a renamed local defeats `value == token`), and Verus
    #     takes `==` through a PartialEq impl without an equality spec as "any bool": what fails in it is undecided.  Other substitutions are not guarded this way: when their
    #     construct is left un-modelled Verus refuses the unit (INFRA), and when it was simply removed (a sort, a sleep, a call) that is a change of the code to be judged.
    shapes = getattr(u.counts, "per_owner", {})
    base = shape_baseline(unit_name, vc)
    kept = []
    for f in failures:
        fn = f.get("fn")
        if f.get("kind") == "assertion" and f.get("origin_kind") == "ghost" and f.get("label") == "proof-step":
            infra.append("proof hint no longer goes through in %s (%s): undecided, not a violation" % (fn, (f.get("detail") or "")[:120])); continue
        lost = lost_models(base.get(fn), shapes.get(fn), builds_text.get(fn, False)) if base is not None else []
        if lost:
            infra.append("%s: %s fails, but a modelling substitution applied less often than on the reference tree (%s): undecided, not a violation" % (
                fn, f.get("obligation"), "; ".join(lost)[:300])); continue
        if fn in unmodelled:
            infra.append("%s: %s fails, but the extracted function still contains unmodelled text formatting (%s!): undecided, not a violation" % (
                fn, f.get("obligation"), "!, ".join(unmodelled[fn]))); continue
        kept.append(f)
    demoted_fns = set(f.get("fn") for f in failures if f not in kept)
    failures = kept
    # canaries: every fn named canary_* must have failed
    canaries = sorted(set(re.findall(r"(?m)^\s*(?:pub\s+)?proof fn (canary_\w+)", text)))
    compile_failed = any(d.get("level") == "error" and d.get("code") for d in diags) or (summary or {}).get("verification-results", {}).get("encountered-vir-error")
    # when the unit does not even type-check no canary can be judged: report them as failing-as-required so that the real reason (infra) stands alone
    canary_ok = {c: (c in canary_failed) or bool(compile_failed) for c in canaries}

    vr = (summary or {}).get("verification-results", {})
    if summary is None or vr.get("encountered-vir-error") or (p.returncode != 0 and not failures and not canary_failed):
        infra.append("verus exit %d without a mapped failure; stderr head: %s" % (p.returncode, p.stderr[:600]))
    # a function verus reports as failed but for which no diagnostic was mapped -> infra
    times = {}
    try:
        for mod in summary["times-ms"]["smt"]["smt-run-module-times"]:
            for f in mod["function-breakdown"]:
                times[f["function"]] = dict(ms=f["time-micros"] / 1000.0, ok=f["success"], rlimit=f.get("rlimit"))
    except Exception:
        pass
    failed_fns = set(f["fn"] for f in failures) | canary_failed | demoted_fns
    for fname, info in times.items():
        if not info["ok"]:
            short = fname.split("::", 1)[1] if "::" in fname else fname
            if not any(short.endswith(ff.split("@")[-1]) or (ff and ff.split("::")[-1] == short.split("::")[-1]) for ff in failed_fns if ff):
                infra.append("function %s failed without a mapped diagnostic (rlimit/timeout?)" % fname)
    return dict(unit=unit_name, obligations=obligations, failures=failures, canaries=canary_ok, infra=infra,
                functions=u.functions, compile_error_owners=compile_error_owners, counts=dict(u.counts), shapes=getattr(u.counts, "per_owner", {}), lost=u.lost, dropped=u.dropped, diffs=u.diffs, trusted=trusted,
                cmd="cd %s && %s" % (BUILD, " ".join(cmd)), wall_s=wall, verus=vr, times=times, gen_path=out,
                verus_version=(summary or {}).get("verus", {}).get("version"),
                gen_sha=hashlib.sha256(text.encode()).hexdigest()[:16], raw_stderr=p.stderr)


if __name__ == "__main__":
    try:
        r = run_unit(sys.argv[1])
    except (AnchorLost, Infra) as e:
        print("INFRA", e); sys.exit(2)
    print(json.dumps(dict(verus=r["verus"], n_obligations=len(r["obligations"]), canaries=r["canaries"], infra=r["infra"], lost=r["lost"],
                          failures=[(f["obligation"], f.get("detail", ""), f["src"]) for f in r["failures"]],
                          counts=r["counts"], wall=r["wall_s"]), indent=1))
