"""Generate one Verus unit from /repo, run Verus on it, map every diagnostic back to a named
obligation.  Used by vk/runner.py.  Never decides exit codes itself."""
import os, re, sys, json, subprocess, time, hashlib

HERE = os.path.dirname(os.path.abspath(__file__))
sys.path.insert(0, HERE)
import extract
from extract import AnchorLost

VERIF = os.path.dirname(HERE)
# generated units go to /verif/build for the real tree; a check pointed at another tree (VERIF_REPO: seeded / refactored scratch worktrees) gets a build directory of its own,
# so that it can run next to a check of /repo without the two overwriting each other's generated files; VERIF_BUILD overrides both
_repo = os.environ.get("VERIF_REPO", "/repo")
BUILD = os.environ.get("VERIF_BUILD") or (os.path.join(VERIF, "build") if _repo == "/repo" else
                                           "/var/tmp/verif-build-" + __import__("hashlib").sha1(_repo.encode()).hexdigest()[:8])

PROOF_FAILURE_PATTERNS = [
    ("postcondition", re.compile(r"postcondition not satisfied|unable to prove post-condition of closure")),
    ("precondition", re.compile(r"precondition not satisfied|fails to satisfy `callee.requires")),
    ("assertion", re.compile(r"assertion failed|assert_by|assert_forall")),
    ("overflow", re.compile(r"possible arithmetic underflow/overflow|possible bit shift|possible division by zero")),
    ("invariant", re.compile(r"invariant not satisfied")),
    ("decreases", re.compile(r"decreases not satisfied|could not prove termination")),
    ("unwrap", re.compile(r"unreachable|panic")),
]
INFRA_PATTERNS = re.compile(r"rlimit|Resource limit|timed out|not supported|unsupported|internal error|"
                            r"cyclic self-reference|z3|solver", re.I)


class Infra(Exception):
    pass


def classify(msg):
    for kind, rx in PROOF_FAILURE_PATTERNS:
        if rx.search(msg):
            return kind
    return None


def labels_of(label):
    """a label comment may carry several ids: `C01.x, C03.y`"""
    if not label:
        return []
    return [x.strip() for x in label.split(",") if x.strip()]


def run_unit(unit_name, rlimit=None, extra_args=()):
    r = _run_unit(unit_name, rlimit, extra_args)
    if rlimit is None and any("rlimit" in x.lower() or "resource limit" in x.lower() for x in r["infra"]):
        # a solver resource limit is not a verdict: retry once with a ten times larger budget
        r2 = _run_unit(unit_name, 100, extra_args)
        r2["retried_with_rlimit"] = 100
        return r2
    return r


def _run_unit(unit_name, rlimit=None, extra_args=()):
    """returns dict(unit, obligations{id->info}, failures[list], canaries, functions, counts, dropped,
    trusted[list], cmd, wall_s, verus_summary, gen_path)"""
    os.makedirs(BUILD, exist_ok=True)
    vc = os.path.join(VERIF, "contracts", unit_name + ".vc")
    out = os.path.join(BUILD, unit_name + ".rs")
    t0 = time.time()
    extract._sources.clear()
    u, origin, text = extract.generate(vc, os.path.join(HERE, "prelude.rs"), out)  # may raise AnchorLost
    lines = text.split("\n")

    # ---- obligations declared by the generated file
    obligations = {}   # id -> dict(fn, label, kind)
    fn_labels = {}
    for k, o in enumerate(origin):
        if o["kind"] in ("spec", "raw", "ghost") and o["label"] and o["owner"]:
            for lab in labels_of(o["label"]):
                if lab.startswith("canary") or lab == "trusted" or lab.startswith("~"):
                    continue
                oid = "%s::%s" % (o["owner"], lab)
                if oid not in obligations:
                    obligations[oid] = dict(fn=o["owner"], label=lab, kind="contract", first_line=k + 1)
    for f in u.functions:
        if not f["external"]:
            oid = "%s::safety" % f["path"]
            obligations[oid] = dict(fn=f["path"], label="C10.safety", kind="safety",
                                    src="%s:%d" % (f["file"], f["line"]))
    m = re.search(r"(?m)^//@expect-labels\s+(\d+)", open(vc).read())
    n_contract = len([1 for o in obligations.values() if o["kind"] == "contract"])
    if not m:
        raise Infra("%s.vc has no //@expect-labels header" % unit_name)
    if int(m.group(1)) != n_contract or n_contract == 0:
        raise Infra("%s.vc declares %s labelled obligations but the generated unit has %d" % (
            unit_name, m.group(1), n_contract))

    # ---- trusted-base scan
    trusted = []
    allow = ("external_body", "assume_specification", "axiom", "assume(", "admit(", "external_type_specification",
             "exec_allows_no_decreases_clause", "uninterp")
    for k, ln in enumerate(lines):
        code = ln.split("//")[0]
        for a in allow:
            if a in code:
                desc = ln.strip()
                # attach the next non-attribute line for context
                j = k + 1
                while j < len(lines) and (lines[j].strip().startswith("#[") or not lines[j].strip()):
                    j += 1
                nxt = lines[j].strip() if j < len(lines) else ""
                trusted.append("%s:%d `%s`%s" % (os.path.basename(out), k + 1, desc[:120],
                                                (" -> `%s`" % nxt[:120]) if a in ("external_body", "exec_allows_no_decreases_clause", "external_type_specification") else ""))
                break
    bad = [t for t in trusted if "assume(" in t or "admit(" in t]
    if bad:
        raise Infra("assume()/admit() present in generated unit: %s" % bad[:3])

    # ---- run verus
    cmd = ["verus", os.path.basename(out), "--output-json", "--time", "--multiple-errors", "50",
           "--error-format=json"] + list(extra_args)
    if rlimit:
        cmd += ["--rlimit", str(rlimit)]
    env = dict(os.environ)
    p = subprocess.run(cmd, cwd=BUILD, capture_output=True, text=True, env=env, timeout=1800)
    wall = time.time() - t0
    try:
        summary = json.loads(p.stdout)
    except Exception:
        summary = None
    diags = []
    for ln in p.stderr.split("\n"):
        ln = ln.strip()
        if not ln.startswith("{"):
            continue
        try:
            diags.append(json.loads(ln))
        except Exception:
            pass
    failures, canary_failed, infra = [], set(), []
    for d in diags:
        if d.get("level") != "error":
            continue
        msg = d.get("message", "")
        if msg.startswith("aborting due to"):
            continue
        prim = [s for s in d.get("spans", []) if s.get("is_primary")]
        kind = classify(msg)
        if not prim or kind is None or d.get("code"):
            infra.append(msg + (" @%s:%s" % (prim[0]["file_name"], prim[0]["line_start"]) if prim else ""))
            continue
        sp = prim[0]
        macro_name = None
        if os.path.basename(sp.get("file_name", "")) != os.path.basename(out):
            # the primary span lies inside a std macro (panic!, unreachable!, assert!, ...): walk the expansion chain back to our file
            e = sp.get("expansion")
            while e:
                macro_name = e.get("macro_decl_name") or macro_name
                if os.path.basename(e["span"].get("file_name", "")) == os.path.basename(out):
                    sp = e["span"]; break
                e = e["span"].get("expansion")
            else:
                infra.append(msg + " @" + str(prim[0].get("file_name")))
                continue
            if kind == "precondition":
                kind = "unwrap"   # a panicking macro is reachable
                msg = "%s is reachable (%s)" % (macro_name or "a panicking macro", msg)
        ln_no = sp["line_start"]
        o = origin[ln_no - 1] if 0 < ln_no <= len(origin) else dict(owner=None, label=None, kind="?", src=None)
        # the label of a multi-line clause is the label in force at its first line
        owner = o["owner"]
        srctext = (sp.get("text") or [{}])[0].get("text", "").strip()
        exit_spans = [s for s in d.get("spans", []) if not s.get("is_primary")]
        where = None
        if exit_spans:
            eo = origin[exit_spans[0]["line_start"] - 1]
            where = dict(gen_line=exit_spans[0]["line_start"], src=eo.get("src"), note=exit_spans[0].get("label"))
        if owner and owner.startswith("canary"):
            canary_failed.add(owner)
            continue
        if kind == "precondition":
            # primary span is the call site; the failed requires clause is the secondary span
            owner = o["owner"]
        labs = [x.lstrip("~") for x in labels_of(o["label"])] if o["kind"] in ("spec", "raw") or (o["kind"] == "ghost" and o["label"]) else []
        callee_clause = None
        if kind == "precondition" and not labs:
            # the call site is the primary span; the violated `requires` clause of the callee is a secondary span: name the failure after it
            for sp2 in d.get("spans", []):
                if not sp2.get("is_primary") and 0 < sp2["line_start"] <= len(origin):
                    o2 = origin[sp2["line_start"] - 1]
                    if o2["kind"] in ("spec", "raw") and o2["label"]:
                        labs = [x.lstrip("~") for x in labels_of(o2["label"])]
                        callee_clause = "%s requires (%s)" % (o2["owner"], o2["label"].replace("~", ""))
                        break
        rec = dict(fn=owner, kind=kind, message=msg if not callee_clause else "%s: precondition of the callee not established at this call - %s" % (msg, callee_clause),
                   gen_line=ln_no, src=o.get("src"), text=srctext[:160], where=where, origin_kind=o["kind"])
        if labs and kind in ("postcondition", "invariant", "assertion", "precondition"):
            for lab in labs:
                r2 = dict(rec); r2["obligation"] = "%s::%s" % (owner, lab); r2["label"] = lab
                failures.append(r2)
        else:
            norm = re.sub(r"\s+", " ", srctext)[:80]
            rec["obligation"] = "%s::safety" % owner
            rec["label"] = "C10.safety" if kind == "overflow" else "proof-step"
            rec["detail"] = "%s: %s" % (kind, norm)
            failures.append(rec)

    # canaries: every fn named canary_* must have failed
    canaries = sorted(set(re.findall(r"(?m)^\s*(?:pub\s+)?proof fn (canary_\w+)", text)))
    compile_failed = any(d.get("level") == "error" and d.get("code") for d in diags) or (summary or {}).get("verification-results", {}).get("encountered-vir-error")
    # when the unit does not even type-check no canary can be judged: report them as failing-as-required so that the real reason (infra) stands alone
    canary_ok = {c: (c in canary_failed) or bool(compile_failed) for c in canaries}

    vr = (summary or {}).get("verification-results", {})
    if summary is None or vr.get("encountered-vir-error") or (p.returncode != 0 and not failures and not canary_failed):
        infra.append("verus exit %d without a mapped failure; stderr head: %s" % (p.returncode, p.stderr[:600]))
    # a function verus reports as failed but for which no diagnostic was mapped -> infra
    times = {}
    try:
        for mod in summary["times-ms"]["smt"]["smt-run-module-times"]:
            for f in mod["function-breakdown"]:
                times[f["function"]] = dict(ms=f["time-micros"] / 1000.0, ok=f["success"], rlimit=f.get("rlimit"))
    except Exception:
        pass
    failed_fns = set(f["fn"] for f in failures) | canary_failed
    for fname, info in times.items():
        if not info["ok"]:
            short = fname.split("::", 1)[1] if "::" in fname else fname
            if not any(short.endswith(ff.split("@")[-1]) or (ff and ff.split("::")[-1] == short.split("::")[-1]) for ff in failed_fns if ff):
                infra.append("function %s failed without a mapped diagnostic (rlimit/timeout?)" % fname)
    return dict(unit=unit_name, obligations=obligations, failures=failures, canaries=canary_ok, infra=infra,
                functions=u.functions, counts=dict(u.counts), dropped=u.dropped, diffs=u.diffs, trusted=trusted,
                cmd="cd %s && %s" % (BUILD, " ".join(cmd)), wall_s=wall, verus=vr, times=times, gen_path=out,
                verus_version=(summary or {}).get("verus", {}).get("version"),
                gen_sha=hashlib.sha256(text.encode()).hexdigest()[:16], raw_stderr=p.stderr)


if __name__ == "__main__":
    try:
        r = run_unit(sys.argv[1])
    except (AnchorLost, Infra) as e:
        print("INFRA", e); sys.exit(2)
    print(json.dumps(dict(verus=r["verus"], n_obligations=len(r["obligations"]), canaries=r["canaries"], infra=r["infra"],
                          failures=[(f["obligation"], f.get("detail", ""), f["src"]) for f in r["failures"]],
                          counts=r["counts"], wall=r["wall_s"]), indent=1))
