"""Run Kani harnesses against the REAL crate (cfg(kani) hook includes /verif/kani/<module>_proofs.rs into the defining module)."""
import os, re, subprocess, time, json, hashlib
from verus_unit import Infra

HERE = os.path.dirname(os.path.abspath(__file__))
VERIF = os.path.dirname(HERE)
REPO = os.environ.get("VERIF_REPO", "/repo")
TARGET = "/var/tmp/verif-kani-target"
LOGS = os.path.join(os.environ.get("VERIF_BUILD") or (os.path.join(VERIF, "build") if REPO == "/repo" else "/var/tmp/verif-build-" + hashlib.sha1(REPO.encode()).hexdigest()[:8]), "kani-logs")


def hooks_present():
    missing = []
    for m in ("bo", "security", "db_ops", "parse_request"):
        p = os.path.join(REPO, "src/lib/%s.rs" % m)
        try:
            if "/verif/kani/%s_proofs.rs" % m not in open(p).read():
                missing.append(m)
        except OSError:
            missing.append(m)
    return missing


def run_harness(h, tier):
    os.makedirs(LOGS, exist_ok=True)
    log = os.path.join(LOGS, h["name"] + ".log")
    timeout = h.get("timeout_thorough" if tier == "thorough" else "timeout", 600)
    args = ["cargo", "kani", "--target-dir", TARGET, "--harness", h["name"]] + h.get("args", [])
    env = dict(os.environ); env["CARGO_NET_OFFLINE"] = "true"
    t0 = time.time()
    # the harness runs in a process group of its own, so that a timeout ends exactly ITS compiler / solver processes (another check may be running Kani at the same time)
    import signal
    proc = subprocess.Popen(args, cwd=REPO, env=env, stdout=subprocess.PIPE, stderr=subprocess.STDOUT, text=True, start_new_session=True)
    try:
        out, _ = proc.communicate(timeout=timeout)
        rc = proc.returncode
    except subprocess.TimeoutExpired:
        try:
            os.killpg(proc.pid, signal.SIGKILL)
        except OSError:
            pass
        try:
            out, _ = proc.communicate(timeout=30)
        except Exception:
            out = ""
        out = (out or "") + "\nTIMEOUT"
        rc = -9
    open(log, "w").write(out)
    res = dict(name=h["name"], function=h["function"], label=h["label"], complete=h.get("complete", False), bound=h.get("bound", "none"),
               src=h.get("src"), time_s=round(time.time() - t0, 1), log=log)
    if rc == -9:
        res["status"] = "TIMEOUT"; return res
    m = re.search(r"VERIFICATION:- (SUCCESSFUL|FAILED)", out)
    if "error: could not compile" in out or "error[E" in out:
        res["status"] = "COMPILE-ERROR"; res["detail"] = "\n".join(l for l in out.split("\n") if l.startswith("error"))[:600]; return res
    if "no harnesses matched" in out or re.search(r"No proof harnesses", out) or not m:
        res["status"] = "NO-RESULT"; res["detail"] = out[-600:]; return res
    vt = re.search(r"Verification Time: ([0-9.]+)s", out)
    res["solver_s"] = float(vt.group(1)) if vt else None
    covers = re.search(r"\*\* (\d+) of (\d+) cover properties satisfied", out)
    res["covers"] = "%s/%s" % (covers.group(1), covers.group(2)) if covers else None
    if m.group(1) == "SUCCESSFUL":
        res["status"] = "SUCCESSFUL"
        if covers and covers.group(1) != covers.group(2):
            res["status"] = "VACUOUS"  # a reachability cover was not satisfied
        return res
    failed = re.findall(r"Failed Checks: (.*)", out)
    res["failed_checks"] = failed
    unsupported = [f for f in failed if "not currently supported" in f or "unsupported" in f.lower() or "unwinding assertion" in f]
    real = [f for f in failed if f not in unsupported]
    if unsupported and not real:
        res["status"] = "UNSUPPORTED"; return res
    if not real:
        # "VERIFICATION:- FAILED" without a single failed check is the solver ending abnormally (killed, out of memory): no verdict, never an alarm
        res["status"] = "NO-RESULT"; res["detail"] = "VERIFICATION FAILED without a failed check (solver ended abnormally?): " + out[-400:]; return res
    res["status"] = "FAILED"
    # concrete counterexample: rerun with concrete playback printing
    try:
        p2 = subprocess.run(args + ["-Z", "concrete-playback", "--concrete-playback=print"], cwd=REPO, env=env, capture_output=True, text=True, timeout=timeout)
        mm = re.search(r"Concrete playback unit test for `.*?`:\n```\n(.*?)```", p2.stdout, re.S)
        if mm:
            res["counterexample"] = mm.group(1)[:4000]
    except Exception:
        pass
    return res


def run(prop, harnesses, tier):
    infra = []
    miss = hooks_present()
    if miss:
        raise Infra("cfg(kani) hook missing in src/lib/{%s}.rs (anchor lost)" % ",".join(miss))
    results, cmds = [], []
    for h in harnesses:
        if h.get("tier") == "thorough" and tier != "thorough":
            continue
        r = run_harness(h, tier)
        results.append(r)
        cmds.append("cd %s && CARGO_NET_OFFLINE=true cargo kani --target-dir %s --harness %s %s" % (REPO, TARGET, h["name"], " ".join(h.get("args", []))))
        if r["status"] in ("COMPILE-ERROR", "NO-RESULT", "VACUOUS", "UNSUPPORTED"):
            infra.append("kani harness %s: %s %s" % (h["name"], r["status"], r.get("detail", "")[:300]))
        if r["status"] == "TIMEOUT":
            if r["complete"]:
                infra.append("kani harness %s timed out" % h["name"])
            # a bounded stand-in that times out is reported undecided, exit code unaffected
    trusted = ["Kani 0.68 / CBMC 6.11 and the Kani compiler's MIR-to-goto translation are trusted",
               "Kani harnesses run the real functions of /repo compiled with --cfg kani; values are dropped with mem::forget to keep drop glue out of the formula",
               "harness files: " + ", ".join("%s sha256:%s" % (f, hashlib.sha256(open(os.path.join(VERIF, "kani", f), "rb").read()).hexdigest()[:12])
                                            for f in sorted(os.listdir(os.path.join(VERIF, "kani"))) if f.endswith(".rs"))]
    return dict(harnesses=results, infra=infra, cmds=cmds, trusted=trusted)
