#!/bin/sh
# usage: confirm_seed.sh <seed-dir>   -- confirms a seeded change in a scratch worktree of /repo (never touches /repo's tree):
#   1. patch applies; crate builds; the 148-test baseline of `cargo test --lib` is unchanged (5 s3 tests fail with or without it)
#   2. demo test FAILS with the patch and PASSES without it
set -e
SEED="$1"; NAME=$(basename "$SEED")
# the demonstration test: meta.json test_name (last path segment), or the older convention `seeded_demo`
T=$(python3 -c "import json,sys; print((json.load(open(sys.argv[1])).get('test_name') or 'seeded_demo').split('::')[-1])" "$SEED/meta.json")
WT=/var/tmp/seed-confirm/$NAME
export CARGO_TARGET_DIR=/var/tmp/seed-confirm-target CARGO_NET_OFFLINE=true
rm -rf "$WT"; git -C /repo worktree prune; git -C /repo worktree add --detach "$WT" HEAD >/dev/null 2>&1
cd "$WT"
git apply "$SEED/patch.diff"
cargo test --offline --lib 2>&1 | grep -aE "^test result|\.\.\. FAILED" | sort -u > "$WT/../$NAME.patched.txt" || true
echo "--- with patch, full lib suite:"; cat "$WT/../$NAME.patched.txt"
git apply "$SEED/demo.diff"
echo "--- with patch + demo:"; cargo test --offline --lib "$T" 2>&1 | grep -aE "^test result|$T.*(ok|FAILED)$" || true
git checkout -- . ; git apply "$SEED/demo.diff"
echo "--- demo only (clean):"; cargo test --offline --lib "$T" 2>&1 | grep -aE "^test result|$T.*(ok|FAILED)$" || true
cd /; git -C /repo worktree remove --force "$WT"
