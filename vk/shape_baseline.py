#!/usr/bin/env python3
"""(Re)writes vk/shape_baseline.json: for every unit, per function under contract, how often each extraction rule applied on the CURRENT /repo tree, plus a digest of
the contract file.  Run it on the unchanged tree after editing contracts/*.vc (a stale entry - digest mismatch - is simply ignored by the checks).
usage: shape_baseline.py [unit ...]"""
import os, sys, json, glob
HERE = os.path.dirname(os.path.abspath(__file__))
sys.path.insert(0, HERE)
import extract, verus_unit
units = sys.argv[1:] or sorted(os.path.basename(p)[:-3] for p in glob.glob(os.path.join(os.path.dirname(HERE), "contracts", "*.vc")))
try:
    data = json.load(open(verus_unit.SHAPE_FILE))
except Exception:
    data = {}
for un in units:
    vc = os.path.join(os.path.dirname(HERE), "contracts", un + ".vc")
    u, origin, text = extract.generate(vc, os.path.join(HERE, "prelude.rs"), "/var/tmp/verif-shape-%s.rs" % un)
    shapes = getattr(u.counts, "per_owner", {})
    data[un] = dict(vc=verus_unit.vc_digest(vc), functions={fn: {k: n for k, n in c.items() if k.startswith(verus_unit.MODEL_RULES)} for fn, c in shapes.items()})
    os.remove("/var/tmp/verif-shape-%s.rs" % un)
    print(un, len(data[un]["functions"]), "functions")
json.dump(data, open(verus_unit.SHAPE_FILE, "w"), indent=1, sort_keys=True)
