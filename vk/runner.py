#!/usr/bin/env python3
"""./check <property> [--tier quick|thorough] [--replay <file>]

Decides one property by contract-based deductive verification of the real code:
  * Verus units: functions extracted mechanically from /repo on every run (vk/extract.py),
    contracts from contracts/<unit>.vc, every diagnostic mapped to a named obligation;
  * Kani units: harnesses / function contracts compiled against the real crate (cfg(kani) hook).
Exit 0: every obligation of the property discharged (open known findings are printed as KNOWN-FINDING).
Exit 1: `VIOLATION property=<id> replay=<path>` for every failed obligation that is not a listed finding.
Exit 2: INFRA - undecided (anchor lost, unsupported construct, solver limit, tool crash); never an alarm.
"""
import os, sys, json, time, argparse, re, subprocess, traceback

HERE = os.path.dirname(os.path.abspath(__file__))
VERIF = os.path.dirname(HERE)
sys.path.insert(0, HERE)
import verus_unit
from verus_unit import Infra
from extract import AnchorLost
import props as P

# VERIF_EVIDENCE_DIR: self-tests that run the check on a deliberately broken tree (vk/run_seeds.py) write their evidence elsewhere,
# so that /verif/evidence always describes a run on the real tree
EVID = os.environ.get("VERIF_EVIDENCE_DIR") or os.path.join(VERIF, "evidence")
REPLAYS = (os.path.join(os.environ["VERIF_EVIDENCE_DIR"], "replays") if os.environ.get("VERIF_EVIDENCE_DIR") else os.path.join(VERIF, "replays"))   # self-tests on broken trees keep their replay files out of /verif too


def load_known():
    p = os.path.join(VERIF, "known_findings.json")
    if not os.path.exists(p):
        return []
    return json.load(open(p)).get("findings", [])


def finding_matches(f, prop, fail):
    if f.get("status") != "open" or f.get("property") != prop:
        return False
    if f.get("obligation") != fail["obligation"]:
        return False
    if f.get("detail") and f["detail"] != fail.get("detail", ""):
        return False
    # a finding of the bounded sweep is pinned to the scenario(s) that show it: another failing scenario of the same clause is a new violation
    w = fail.get("sweep_witness")
    if f.get("scenario") and w and not finding_covers(f, w.get("family"), w.get("scenario")):
        return False
    return True


def finding_covers(f, family, scenario):
    """does the open finding f list this sweep scenario?  exact scenario, or - for a defect every scenario of a class shows - the regular expression scenario_pattern over `family:scenario`"""
    if scenario == f.get("scenario"):
        return True
    pat = f.get("scenario_pattern")
    return bool(pat and re.fullmatch(pat, "%s:%s" % (family, scenario)))


def thorough_extras(prop, cfg, infra):
    """(1) Verus proof stability under other Z3 seeds, (2) committed mutation self-test, (3) deeper bounded sweep"""
    import extract, shutil, mutants
    out = {}
    # ---- (1) stability: the same units must verify under two more solver seeds; an unstable proof is an INFRA matter, not an alarm
    stab = []
    for un in cfg.get("units", []):
        for seed in (7, 1234):
            try:
                r = verus_unit.run_unit(un, extra_args=("--smt-option", "smt.random_seed=%d" % seed))
                open_known = set(k.get("obligation") for k in load_known() if k.get("status") == "open" and k.get("property") == prop)
                bad = [f["obligation"] for f in r["failures"] if (f["label"].startswith(prop + ".") or f["label"] == "proof-step") and f["obligation"] not in open_known]
                stab.append(dict(unit=un, seed=seed, stable=not bad and not r["infra"], failed=bad[:5]))
                if bad or r["infra"]:
                    infra.append("unit %s: proof not stable under smt.random_seed=%d (%s)" % (un, seed, (bad or r["infra"])[:2]))
            except Exception as e:
                stab.append(dict(unit=un, seed=seed, stable=False, error=str(e)[:200]))
    out["proof_stability"] = stab
    # ---- (2) mutation self-test on a scratch copy of src/ (Verus units only)
    scratch = "/var/tmp/verif-mut-%d" % os.getpid()
    results = []
    real_repo = extract.REPO
    try:
        for mut in mutants.M:
            (mp, what, rel, frm, to) = mut[:5]
            more = list(zip(mut[5::2], mut[6::2]))   # further (from, to) pairs in the same file
            if mp != prop:
                continue
            shutil.rmtree(scratch, ignore_errors=True)
            shutil.copytree(os.path.join(real_repo, "src"), os.path.join(scratch, "src"))
            path = os.path.join(scratch, rel)
            text = open(path).read()
            if text.count(frm) != 1:
                results.append(dict(mutant=what, file=rel, status="stale (pattern found %d times)" % text.count(frm)))
                continue
            text = text.replace(frm, to)
            stale2 = [f2 for (f2, t2) in more if text.count(f2) != 1]
            if stale2:
                results.append(dict(mutant=what, file=rel, status="stale (second pattern not found once)"))
                continue
            for (f2, t2) in more:
                text = text.replace(f2, t2)
            open(path, "w").write(text)
            extract.REPO = scratch
            caught, why = False, []
            for un in cfg.get("units", []):
                try:
                    r = verus_unit.run_unit(un)
                except (AnchorLost, Infra) as e:
                    why.append("unit %s undecided: %s" % (un, str(e)[:120])); continue
                open_known = set(k.get("obligation") for k in load_known() if k.get("status") == "open" and k.get("property") == prop)
                hits = [f["obligation"] + ((" [" + f["detail"] + "]") if f.get("detail") else "") for f in r["failures"]
                        if (f["label"].startswith(prop + ".") or f["label"] == "proof-step" or (prop == "C10" and f["label"] == "C10.safety"))
                        and f["obligation"] not in open_known]   # an obligation that already fails on the unchanged tree (open known finding) catches nothing
                if hits:
                    caught = True; why = hits[:4]; break
                if r["infra"]:
                    why.append("unit %s undecided: %s" % (un, r["infra"][0][:120]))
            results.append(dict(mutant=what, file=rel, status="caught" if caught else "SURVIVED", by=why))
    finally:
        extract.REPO = real_repo
        extract._sources.clear()
        shutil.rmtree(scratch, ignore_errors=True)
        for un in cfg.get("units", []):   # regenerate the units from the real tree so that build/ is not left mutated
            try:
                verus_unit.run_unit(un)
            except Exception:
                pass
    out["mutation_self_test"] = dict(mutants=len(results), caught=len([r for r in results if r["status"] == "caught"]),
                                     survived=[r for r in results if r["status"] == "SURVIVED"],
                                     stale=[r for r in results if r["status"].startswith("stale")], table=results)
    # ---- (3) deeper bounded sweep
    if cfg.get("sweep", True):
        try:
            import replay_driver
            os.environ["VERIF_SWEEP_DEEP"] = "1"
            d = replay_driver.sweep(prop)
            out["deep_sweep"] = dict(scenarios=d["scenarios"], families=d["families"], violations=d["violations"])
            if d["violations"]:
                out["deep_sweep"]["note"] = "violations found only by the deeper sweep are reported below as VIOLATION lines"
        except Exception as e:
            out["deep_sweep"] = dict(error=str(e)[:300])
        finally:
            os.environ.pop("VERIF_SWEEP_DEEP", None)
    return out


def _unit_worker(un):
    try:
        return ("ok", verus_unit.run_unit(un))
    except (AnchorLost, Infra) as e:
        return ("infra", str(e))
    except subprocess.TimeoutExpired:
        return ("infra", "verus timed out")
    except Exception as e:   # a crash of the extractor is an infrastructure matter, never an alarm
        return ("infra", "extractor / runner crashed: %s" % (traceback.format_exc()[-400:],))


def main():
    ap = argparse.ArgumentParser()
    ap.add_argument("prop")
    ap.add_argument("--tier", default=os.environ.get("VERIF_TIER", "quick"))
    ap.add_argument("--replay")
    a = ap.parse_args()
    prop = a.prop
    seed = int(os.environ.get("VERIF_SEED", "0") or 0)
    if prop not in P.PROPS:
        print("INFRA property=%s reason=not claimed (see MANIFEST.json not_applicable)" % prop)
        return 2
    if a.replay:
        import replay_driver
        return replay_driver.replay(prop, a.replay)
    cfg = P.PROPS[prop]
    t0 = time.time()
    os.makedirs(EVID, exist_ok=True)
    os.makedirs(REPLAYS, exist_ok=True)
    ev_path = os.path.join(EVID, prop + ".json")
    if os.path.exists(ev_path):
        os.remove(ev_path)

    infra, unit_results = [], []
    # ------------------------------------------------------------------ Verus units
    units = cfg.get("units", [])
    if len(units) > 1 and os.environ.get("VERIF_SERIAL") is None:
        # the units of a property are independent (one generated file each): verify them side by side
        import concurrent.futures
        with concurrent.futures.ProcessPoolExecutor(max_workers=min(8, len(units))) as ex:
            outs = list(ex.map(_unit_worker, units))
    else:
        outs = [_unit_worker(un) for un in units]
    for un, (kind, val) in zip(units, outs):
        if kind == "ok":
            unit_results.append(val)
        else:
            infra.append("unit %s: %s" % (un, val))
    # ------------------------------------------------------------------ Kani units
    kani_res = None
    if cfg.get("kani"):
        import kani_unit
        try:
            kani_res = kani_unit.run(prop, cfg["kani"], a.tier)
            infra += kani_res["infra"]
        except Infra as e:
            infra.append("kani: %s" % e)

    # ------------------------------------------------------------------ obligations of this property
    obligations, failures, functions, trusted, dropped, cmds, canaries = {}, [], [], [], [], [], {}
    diffs = {}
    rewrite_counts = {}
    solver_ms = 0.0
    for r in unit_results:
        infra += ["unit %s: %s" % (r["unit"], x) for x in r["infra"]]
        carriers = set()
        reach = None
        if prop == "C10":
            reach = set(f["path"] for f in r["functions"] if not f["external"] and f["path"] in cfg.get("reachable", {}).get(r["unit"], []))
        for oid, o in r["obligations"].items():
            if o["label"].startswith(prop + "."):
                if reach is not None and o["kind"] == "safety" and o["fn"] not in reach:
                    continue
                obligations["%s/%s" % (r["unit"], oid)] = o
                carriers.add(o["fn"])
        if reach is not None:
            carriers = reach
        # modular proofs lean on the contracts of the callees: a contract clause of a helper that fails counts for every property whose functions (transitively) call it,
        # whatever property its own label names (e.g. Change::next_version, labelled C02, is what C19's try_resolve_conflict_response stands on)
        calls = {f["path"]: f.get("calls", []) for f in r["functions"]}
        leaned_on, todo = set(), [c for c in carriers]
        while todo:
            x = todo.pop()
            for y in calls.get(x, []):
                if y not in leaned_on and y not in carriers:
                    leaned_on.add(y); todo.append(y)
        # functions / arms whose extraction failed (anchor lost) are verified as trusted externals resp. left out, so that the rest of the unit is still decided: a property is
        # undecided (INFRA) only if it depends on one of them - it carries a clause of this property, one of this property's functions is or calls it
        for lname, linfo in r.get("lost", {}).items():
            short = lname.split(":", 1)[-1]
            dep = any(l.startswith(prop + ".") for l in linfo.get("labels", [])) or lname in carriers or lname in leaned_on
            if prop == "C10":
                dep = dep or lname in carriers or any(short.lower() == x.replace("arm_", "").replace("op_", "").replace("_", "") for x in cfg.get("reachable", {}).get(r["unit"], []) if x.startswith(("arm_", "op_")))
            if dep:
                infra.append("unit %s: %s could not be extracted (%s): what it carries for %s is undecided" % (r["unit"], lname, linfo.get("reason", "")[:200], prop))
        for f in r["failures"]:
            lab = f["label"]
            mine = lab.startswith(prop + ".") and (prop != "C10" or f["fn"] in carriers or f.get("origin_kind") in ("spec", "raw"))
            if not mine and prop != "C10" and lab != "proof-step" and f["fn"] in leaned_on and f.get("kind") in ("postcondition", "invariant", "assertion"):
                mine = True
                f = dict(f); f["message"] = "%s [contract of a callee that the %s obligations of this unit lean on]" % (f["message"], prop)
            if lab == "proof-step":
                # an unlabelled contract clause / proof step / callee precondition failed somewhere in this unit: every
                # property decided by the unit may lean on it (modular proofs use the helper's contract), so it counts for all
                mine = True
            if mine:
                g = dict(f); g["unit"] = r["unit"]; g["engine"] = "verus"
                failures.append(g)
        for c, failed in r["canaries"].items():
            canaries["%s/%s" % (r["unit"], c)] = failed
            if not failed:
                infra.append("unit %s: canary %s VERIFIED - contradictory axioms or preconditions" % (r["unit"], c))
        for f in r["functions"]:
            if f["path"] in carriers or prop == "C10" and f["path"] in carriers:
                t = [v for k, v in r["times"].items() if k.endswith("::" + f["path"].split("@")[-1]) or k.endswith(f["path"].replace("@", "::"))]
                functions.append(dict(function=f["path"], source="%s:%d" % (f["file"], f["line"]), unit=r["unit"],
                                      backend="verus", external=f["external"], labels=[l for l in f["labels"] if l.startswith(prop + ".")],
                                      solver_ms=round(sum(x["ms"] for x in t), 2) if t else None))
        for fpath, dtext in r.get("diffs", {}).items():
            if fpath in carriers and dtext:
                diffs["%s/%s" % (r["unit"], fpath)] = dtext.split("\n")[:80]
        trusted += ["[%s] %s" % (r["unit"], x) for x in r["trusted"]]
        dropped += ["[%s] %s" % (r["unit"], x) for x in r["dropped"]]
        cmds.append(r["cmd"])
        rewrite_counts[r["unit"]] = r["counts"]
        solver_ms += sum(x["ms"] for x in r["times"].values())
    bounded = []
    if kani_res:
        for h in kani_res["harnesses"]:
            oid = "kani/%s" % h["name"]
            if h["complete"]:
                obligations[oid] = dict(fn=h["function"], label=h["label"], kind="kani-complete")
            else:
                bounded.append(dict(harness=h["name"], function=h["function"], bound=h["bound"], status=h["status"], label=h["label"],
                                    time_s=h.get("time_s")))
            if h["status"] == "FAILED":
                failures.append(dict(obligation="%s::%s" % (h["function"], h["label"]), label=h["label"], fn=h["function"], kind="kani",
                                     message="kani harness %s FAILED: %s" % (h["name"], "; ".join(h.get("failed_checks", [])[:4])),
                                     unit="kani", engine="kani", counterexample=h.get("counterexample"), src=h.get("src"),
                                     text=h["name"], detail="" if h["complete"] else "bounded"))
            functions.append(dict(function=h["function"], source=h.get("src"), unit="kani", backend="kani/cbmc" + ("" if h["complete"] else " (bounded: %s)" % h["bound"]),
                                  labels=[h["label"]], solver_ms=round(1000 * h.get("time_s", 0), 1)))
        cmds += kani_res["cmds"]
        trusted += kani_res["trusted"]

    # ------------------------------------------------------------------ bounded native sweep (stand-in for code outside the verifiers' reach)
    sweep_res = None
    # developer option VERIF_SKIP_SWEEP=1 (used by the false-alarm test on behaviour-preserving patches, where only the deductive part can be affected): never set by a registered command
    if cfg.get("sweep", True) and not os.environ.get("VERIF_SKIP_SWEEP"):
        try:
            import replay_driver
            sweep_res = replay_driver.sweep(prop)
            bounded.append(dict(harness="native-sweep", function="public API of the real crate (trusted / external functions, dispatcher glue)",
                                bound="%d scenarios: %s" % (sweep_res["scenarios"], json.dumps(sweep_res["families"])),
                                status="FAILED" if sweep_res["violations"] else "SUCCESSFUL", label=prop + ".*"))
            have = set(f["label"] for f in failures)
            open_known = [k for k in load_known() if k.get("status") == "open" and k.get("property") == prop]
            for sv in sweep_res["violations"]:
                # the witness is the first violating scenario that NO open finding of this clause lists (so that a finding never hides another scenario); if they are all listed, the first
                covered = lambda s: any(k.get("obligation", "").endswith("::" + sv["label"]) and finding_covers(k, s.split(":", 1)[0], s.split(":", 1)[1]) for k in open_known)
                pick = next((s for s in sv.get("all", [sv["scenario"]]) if not covered(s)), sv["scenario"])
                fam, sc = pick.split(":", 1)
                sv = dict(sv, scenario=pick)
                wit = dict(found=True, family=fam, scenario=sc, label_searched=sv["label"], source="bounded native sweep")
                hit = [f for f in failures if f["label"] == sv["label"]]
                if hit:
                    for f in hit:
                        f["sweep_witness"] = wit
                    continue
                failures.append(dict(obligation="sweep::%s" % sv["label"], label=sv["label"], fn="(bounded sweep, family %s)" % fam, kind="bounded-sweep",
                                     message="scenario %s violates clause %s on the real code" % (sv["scenario"], sv["label"]),
                                     unit="native-sweep", engine="native-sweep", sweep_witness=wit, src=None, text=sv["scenario"], detail=""))
            cmds.append("nundb-replay sweep %s   (native build of /verif/replay against the repo)" % prop)
        except Exception as e:
            infra.append("bounded sweep unavailable: %s" % str(e)[:300])

    # ------------------------------------------------------------------ thorough tier extras (reported in evidence; never decide the verdict alone)
    thorough = {}
    if a.tier == "thorough":
        thorough = thorough_extras(prop, cfg, infra)

    # ------------------------------------------------------------------ verdict
    known = load_known()
    new_fail, known_hit = [], []
    seen = set()
    for f in failures:
        key = (f["obligation"], f.get("detail", ""))
        if key in seen:
            continue
        seen.add(key)
        kf = next((k for k in known if finding_matches(k, prop, f)), None)
        if kf:
            known_hit.append((kf, f))
        else:
            new_fail.append(f)
    out_lines = []
    for kf, f in known_hit:
        out_lines.append("KNOWN-FINDING: property=%s %s %s: %s" % (prop, f["obligation"], f.get("detail", ""), kf.get("what", "")))
    violations = 0
    replay_files = []
    if not infra or new_fail:
        for f in new_fail:
            violations += 1
            name = re.sub(r"[^A-Za-z0-9_.-]+", "_", "%s-%s%s" % (prop, f["obligation"], ("-" + f["detail"]) if f.get("detail") else ""))[:150]
            rp = os.path.join(REPLAYS, name + ".json")
            witness = f.get("sweep_witness")
            if witness is None:
                try:
                    import replay_driver
                    witness = replay_driver.search(prop, f)
                except Exception as e:
                    witness = dict(found=False, note="witness search unavailable: %s" % e)
            if f.get("counterexample"):
                witness = dict(found=True, source="kani concrete playback", input=f["counterexample"])
            rec = dict(property=prop, obligation=f["obligation"], label=f["label"], function=f["fn"], engine=f["engine"], unit=f["unit"],
                       kind=f["kind"], verifier_message=f["message"], clause_or_expression=f.get("text"), source=f.get("src"),
                       exit_point=f.get("where"), detail=f.get("detail"), witness=witness,
                       how_to_replay="./check %s --replay %s" % (prop, rp))
            json.dump(rec, open(rp, "w"), indent=1)
            replay_files.append(rp)
            tail = "" if (witness and witness.get("found")) else " no-failing-input-found"
            out_lines.append("VIOLATION property=%s replay=%s obligation=%s%s" % (prop, rp, f["obligation"], tail))

    n_obl = len(obligations)
    failed_ids = set()
    for f in failures:
        for k in obligations:
            if k.endswith("/" + f["obligation"]) or k == f["obligation"]:
                failed_ids.add(k)
    known_ids = set()
    for kf, f in known_hit:
        for k in obligations:
            if k.endswith("/" + f["obligation"]):
                known_ids.add(k)
    claimed = {k: v for k, v in obligations.items() if k not in known_ids}
    discharged = len([k for k in claimed if k not in failed_ids])
    wall = time.time() - t0
    samples = []
    for k in list(claimed)[:6]:
        samples.append(dict(obligation=k, function=claimed[k]["fn"], label=claimed[k]["label"], kind=claimed[k]["kind"],
                            status="failed" if k in failed_ids else "discharged"))
    ev = dict(
        property_id=prop, tier=a.tier, seed=seed, level="proof",
        coverage=dict(
            obligations=len(claimed), discharged=discharged,
            checker_cmd=" ; ".join(cmds) if cmds else "none",
            trusted_base=sorted(set(trusted)) + ["EXTRACTION DROPS: " + d for d in dropped],
            samples=samples,
            obligation_ids=sorted(claimed),
            failed=sorted(failed_ids - known_ids),
            functions_under_contract=functions,
            bounded_checks_not_counted=bounded,
            canaries_must_fail=canaries,
            extraction_rewrites=rewrite_counts,
            extraction_diffs_source_vs_verified=diffs,
            solver_time_ms=round(solver_ms, 1),
            known_findings_open=[dict(obligation=f["obligation"], detail=f.get("detail"), what=kf.get("what")) for kf, f in known_hit],
            undecided_clauses=cfg.get("undecided", []),
            thorough=thorough,
            infra=infra,
        ),
        assumptions=cfg.get("assumptions", []) + P.COMMON_ASSUMPTIONS,
        wall_s=round(wall, 2),
        violations=violations,
    )
    if n_obl == 0 and not infra:
        infra.append("no obligation carries property %s (vacuous run)" % prop)
        ev["coverage"]["infra"] = infra
    if len(claimed) > 0 and not (infra and not new_fail):
        json.dump(ev, open(ev_path, "w"), indent=1)
    for l in out_lines:
        print(l)
    print("SUMMARY property=%s tier=%s obligations=%d discharged=%d known-findings=%d violations=%d infra=%d wall=%.1fs" % (
        prop, a.tier, len(claimed), discharged, len(known_hit), violations, len(infra), wall))
    if violations:
        return 1
    if infra:
        for i in infra:
            print("INFRA property=%s reason=%s" % (prop, i.replace("\n", " ")[:400]))
        # still write evidence so that the reason is inspectable, but mark undecided
        ev["coverage"]["undecided"] = True
        json.dump(ev, open(ev_path, "w"), indent=1)
        return 2
    return 0


if __name__ == "__main__":
    try:
        sys.exit(main())
    except SystemExit:
        raise
    except Exception:
        traceback.print_exc()
        print("INFRA reason=runner crashed")
        sys.exit(2)
