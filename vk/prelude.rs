// ---- /verif/vk/prelude.rs : trusted base shared by every Verus unit (listed in evidence) ----
#![allow(unused_imports, unused_variables, dead_code, unused_mut, unused_parens, non_snake_case)]
#![feature(allocator_api)]
use vstd::prelude::*;
mod ax {
use vstd::prelude::*;
verus! {
// uninterpreted text <-> number conversions (std's Display for i32 / usize and i32::from_str_radix)
pub uninterp spec fn spec_parse_i32(s: Seq<char>) -> Option<i32>;
pub uninterp spec fn spec_i32_to_string(n: i32) -> Seq<char>;
pub uninterp spec fn spec_usize_to_string(n: usize) -> Seq<char>;
// [trusted] String extensionality: two Strings with the same characters are the same value
pub broadcast axiom fn axiom_string_ext(a: String, b: String)
    ensures (#[trigger] a@ == #[trigger] b@) ==> a == b;
// [trusted] <String as ToString>::to_string returns an equal string
pub broadcast axiom fn axiom_string_to_string(s: &String, r: String)
    ensures #[trigger] vstd::string::to_string_from_display_ensures::<String>(s, r) <==> r@ == s@;
// [trusted] Display for i32 prints spec_i32_to_string
pub broadcast axiom fn axiom_i32_to_string(v: &i32, r: String)
    ensures #[trigger] vstd::string::to_string_from_display_ensures::<i32>(v, r) <==> r@ == spec_i32_to_string(*v);
// [trusted] Display for usize prints spec_usize_to_string
pub broadcast axiom fn axiom_usize_to_string(v: &usize, r: String)
    ensures #[trigger] vstd::string::to_string_from_display_ensures::<usize>(v, r) <==> r@ == spec_usize_to_string(*v);
// [trusted] Display prints zero as "0"
pub broadcast axiom fn axiom_zero_text()
    ensures #[trigger] spec_i32_to_string(0) == "0"@;
// [trusted] parsing what Display printed gives the number back
pub broadcast axiom fn axiom_parse_print(n: i32)
    ensures #[trigger] spec_parse_i32(spec_i32_to_string(n)) == Some(n);
}
}
verus! {
// [trusted] std i32::saturating_add clamps at the i32 bounds
pub assume_specification[i32::saturating_add](a: i32, b: i32) -> (r: i32)
    ensures r == (if a + b > i32::MAX { i32::MAX as int } else if a + b < i32::MIN { i32::MIN as int } else { a + b });
}
verus! {
// [trusted] String::len is the length of the UTF-8 encoding (the encoding itself is uninterpreted); a String never exceeds isize::MAX bytes
pub uninterp spec fn spec_utf8(s: Seq<char>) -> Seq<u8>;
pub open spec fn spec_utf8_len(s: Seq<char>) -> usize { spec_utf8(s).len() as usize }
pub assume_specification[String::len](s: &String) -> (r: usize) ensures r == spec_utf8_len(s@), r == spec_utf8(s@).len(), r <= isize::MAX;
// [trusted] std integer helpers a refactoring is likely to reach for (widen the accepted subset; std semantics as documented)
pub assume_specification[u64::next_multiple_of](x: u64, m: u64) -> (r: u64)
    requires m != 0, x + m <= u64::MAX,
    ensures r % m == 0, r >= x, r - x < m;

}
verus! {
// [trusted] <String as From<&str>>::from copies the characters (R6b: Verus accepts String::from without giving it a meaning)
#[verifier::external_body]
pub fn prelude_string_from(s: &str) -> (r: String)
    ensures r@ == s@
{ String::from(s) }
}
use vstd::std_specs::hash::*;
use std::collections::HashMap;
use std::sync::Arc;
