"""debug helper: python3 vk/dbg_unit.py <unit>  - run one Verus unit and print failures compactly"""
import sys, os, json
sys.path.insert(0, os.path.dirname(os.path.abspath(__file__)))
import verus_unit
r = verus_unit.run_unit(sys.argv[1])
print({k: (v if not isinstance(v, (list, dict, str)) else (len(v) if not isinstance(v, str) else v[:80])) for k, v in r.items() if k != "raw_stderr"})
for f in r.get("failures", []): print({k: (str(v)[:300]) for k, v in f.items()})
for c in r.get("canaries", []): print("canary", c)
for i in r.get("infra", []): print("infra", str(i)[:600])
