"""Which units decide which property, what stays undecided, what is assumed."""

COMMON_ASSUMPTIONS = [
    "Verus units verify the real function bodies of /repo after the mechanical rewrites R1-R8 of vk/extract.py "
    "(per-unit counts in coverage.extraction_rewrites, everything dropped listed in coverage.trusted_base): log:: statements deleted, "
    "RwLock/Mutex/Atomic* elided => sequential semantics only, no interleavings, no poisoning",
    "the command dispatcher process_request_obj (dyn Fn closures) is not verified: that it passes the parsed arguments to the "
    "functions under contract is assumed (glue)",
    "std HashMap/String/Vec behave as vstd specifies; obeys_key_model::<String>() and builds_valid_hashers::<RandomState>() are assumed "
    "as preconditions (hash_ok)",
    "Z3 (shipped with Verus) and the Verus VC generator are trusted",
    "machine arithmetic is NOT treated as mathematical: Verus checks every + - * and cast of the extracted code for overflow / underflow; "
    "Kani keeps rustc's overflow checks (debug assertions)",
    "no unsafe code occurs in the functions under contract; external (trusted-spec) functions are listed one by one in coverage.trusted_base "
    "(`EXTRACTION DROPS: fn ... body NOT verified`)",
    "the bounded native sweep is a stand-in for code outside both verifiers (iterator pipelines, dispatcher arms); it is labelled bounded and is not "
    "part of obligations/discharged",
]

STORE_FNS = ["op_watch", "op_un_watch", "op_un_watch_all", "watch_key", "unwatch_all", "unwatch_key", "get_senders", "Database::watch_key", "Database::get_value", "Database::set_value_version", "Database::set_value_as_ok", "Database::set_value",
             "Database::remove_value", "Database::inc_value", "Change::next_version", "get_key_value_new", "remove_key",
             "is_valid_token", "is_valid_user_token", "Value::get_update_value_sate", "Value::is_in_conflict_resolution",
             "Change::allow_save_version", "Change::keep_in_conflict_resolution", "Change::resolving_conflict",
             "Change::to_resolve_change", "Change::to_different_version", "From<String>@Value::from", "From<&str>@Value::from"]

K_NEXT_VERSION = dict(name="c02_next_version__next_version", function="Change::next_version", label="C02.next-version-kani", complete=True,
                      bound="none: all i32 x i32 x bool, loop-free", src="src/lib/bo.rs (Change::next_version)", timeout=600)
K_LIVE_VERSION = dict(name="c06_live_version__live_version", function="live_version", label="C06.live-version-kani", complete=True,
                      bound="none: all i32, loop-free", src="src/lib/bo.rs (live_version)", timeout=600)
K_STATUS_CODEC = dict(name="c06_status_codec__value_status", function="ValueStatus / ConsensuStrategy codecs", label="C06.status-codec-kani", complete=True,
                      bound="none: all i32, loop-free", src="src/lib/bo.rs (ValueStatus::{from,to_le_bytes}, ConsensuStrategy::{from,to_le_bytes})", timeout=600)
K_ROLE_CODEC = dict(name="c07_role_codec__cluster_role", function="ClusterRole::from(usize)", label="C07.role-codec-kani", complete=True,
                    bound="none: the three role words 0..=2, loop-free", src="src/lib/bo.rs (impl From<usize> for ClusterRole)", timeout=600)
K_FILTER = dict(name="c08_listing_hides_secure__filter_system_keys", function="filter_system_keys", label="C08.listing-hides-secure", complete=False,
                bound="key <= 3 printable ASCII bytes (the function inspects only the 2-byte prefix)", src="src/lib/bo.rs (filter_system_keys)", timeout=900,
                tier="thorough")
K_AUTH = dict(name="c09_auth_gate__apply_if_auth", function="apply_if_auth", label="C09.auth-gate-kani", complete=True,
              bound="none: both flag values, closure call counter", src="src/lib/security.rs (apply_if_auth)", timeout=600)
K_KIND = dict(name="c09_kind_letters__permission_kind_from_char", function="PermissionKind::from(char)", label="C09.kind-letters", complete=True,
              bound="none: all chars", src="src/lib/bo.rs (impl From<char> for PermissionKind)", timeout=600)
K_PATTERN_CHOICE = dict(name="c01_keys_pattern_choice__get_function_by_pattern", function="get_function_by_pattern", label="C01.keys-pattern-choice",
                        complete=False, bound="pattern <= 3 bytes over {a,b,*,$} (the function looks at first/last char only)",
                        src="src/lib/db_ops.rs (get_function_by_pattern)", timeout=900, tier="thorough")
K_CODEC = dict(name="c12_codec__replicate_opp", function="ReplicateOpp::{to_u8,from}", label="C12.op-codec", complete=True,
               bound="none: all 256 bytes", src="src/lib/bo.rs (ReplicateOpp)", timeout=600)

PARSER_FNS = ["parse_auth_command", "parse_remove_command", "parse_replicate_increment_command", "parse_increment_command", "parse_set_safe_command",
              "parse_set_command", "parse_get_safe_command", "parse_get_command", "parse_unwatch_command", "parse_set_secoundary_command", "parse_set_primary_command",
              "parse_replicate_join_command", "parse_replicate_leave_command", "parse_leave_command", "parse_join_command", "parse_election_command",
              "parse_resolve_command", "parse_debug_command", "parse_arbiter_command", "parse_set_permissions_command", "parse_ack_command", "parse_rp_command",
              "parse_replicate_command", "parse_replicate_remove_command", "parse_replicate_since_command", "parse_list_commands_command", "parse_watch_command",
              "parse_keys_command", "parse_use_command", "parse_create_db_command", "parse_create_user_command"]

SECURITY_FNS = ["has_permission", "apply_if_auth", "apply_to_database_name_if_has_permission", "apply_if_safe_access",
                "apply_to_database_name", "apply_to_database", "Client::is_admin_auth", "Client::selected_db_name", "Client::selected_db_user_name"]

PROPS = {
    "C01": dict(
        units=["store", "listing", "snapshot", "replies", "parser", "consensus", "outbox"],
        kani=[K_PATTERN_CHOICE],
        undecided=["the command-word table of Request::parse (a lazy_static HashMap of fn pointers) and std's splitn; the per-command parsers of the data commands ARE verified against "
                   "what each command line means (unit parser: C01.parse-*); the dispatcher arms are verified in two halves that R10 / R10b cut apart and that only the extraction rule "
                   "joins again: guard usage with the closure abstracted (unit dispatch) and the closure body - kept in place for the reading arms (unit replies), lifted to a function "
                   "for set / remove / increment (unit consensus: op_set, op_remove, op_increment)",
                   "`keys`: String's ordering (the meaning of 'sorted') is an uninterpreted total order (the Keys arm itself - which list_system_keys flag it passes, how the "
                   "names are joined - is verified in unit replies)"],
        assumptions=["Display for Value prints its value field (trusted axiom; impl at bo.rs is compiled but not verified)",
                     "i32 <-> text conversions are uninterpreted with parse(print(n)) == Some(n)",
                     "unit listing: `map.iter().filter(F).map(G).collect()` is replaced by a trusted shim (R11: every entry visited exactly once, F's and G's own contracts decide "
                     "what is kept and produced - the closure bodies are the real ones and are verified); Vec::sort is a permutation that sorts; str::starts_with / ends_with / "
                     "contains / replace(\"*\", \"\") are prefix / suffix / substring tests and star removal (trusted shims)",
                     "unit listing: the fn pointers returned by get_function_by_pattern are defunctionalised (R12: three tags and a match that calls the three real functions)"],
    ),
    "C02": dict(
        units=["store", "consensus", "parser", "outbox", "snapshot"],
        kani=[K_NEXT_VERSION],
        undecided=["interleavings of concurrent clients (set_value reads under one lock acquisition and writes under another): "
                   "lock elision makes every function sequential, so 'two writers never both succeed' is NOT decided"],
        assumptions=[],
    ),
    "C03": dict(
        units=["store", "parser", "sessions", "consensus", "delivery"],
        undecided=["who is subscribed when (watch/unwatch/unwatch-all/disconnect races)", "delivery on a full channel (try_send)",
                   "final-view currency under concurrent writers"],
        assumptions=["in the store / consensus units notify_watchers is a trusted external that hands one (key,value,version) record to the watchers of the key (a database-level "
                     "log); its REAL try_send loop is verified in unit delivery against a per-channel model (every registration of the key is handed the changed and the "
                     "changed-version line once, nobody else anything) - what stays trusted there: clones of a Sender are handles of the same channel, try_send hands the line to "
                     "that channel only, and whether a full channel takes the line is not modelled; the `removed <key>` loop of remove_value is verified there too (with the store half of the function dropped - that half is verified in unit store, where the loop is the shim)",
                     "unit sessions (use-db / release_previous_db / Client::left end no subscription): set_connection_counter is a trusted shim that leaves the watcher table alone "
                     "(it writes $connections through set_key_value, whose store contracts frame the watchers)"],
    ),
    "C15": dict(
        units=["pending", "oplogflag"],
        undecided=["real atomics / locks are sequentialised (in production ack, replicated and the counters are all touched under the outer pending_opps write lock)",
                   "end-to-end observation through the cluster (the `ack` handler's closure IS verified - op_acknowledge: the accounting step, whatever the node's role; the rp handler "
                   "and the replication thread's dispatch are covered by the bounded family logthread only)"],
        assumptions=["call-site condition of register_pending_opp: an operation is handed to a node at most once while that node still owes its acknowledgement - now PROVED at "
                     "its two call sites (replicate_message_to_all / replicate_message_to_secoundary, which are verified to register an operation for exactly the members "
                     "they hand it to: every other member, resp. every other member marked Secoundary, never this node itself); what remains assumed there: an operation id "
                     "is fanned out once (ids come from next_op_log_id), iteration over the member table visits every entry once (R8 shim), and replicate_if_some - the "
                     "send over the member's link - is a trusted external that touches no state of this node",
                     "HashMap::get_mut has a hand-written trusted specification (no vstd spec)",
                     "AtomicUsize::fetch_add is modelled as a wrapping add on a plain usize"],
    ),
    "C08": dict(
        units=["security", "store", "dispatch", "listing", "replies", "outbox", "sessions", "parser"],
        kani=[K_FILTER],
        undecided=["handlers that do not go through apply_if_safe_access: the Resolve, Arbiter and rp (ReplicateRequest) arms of the dispatcher "
                   "- a non-admin `resolve ... $$token ...` is outside every contract here (the six keyed data arms get / get-safe / watch / set / increment / "
                   "remove ARE verified to pass their key through the guard, unit dispatch)",
                   "two-run noninterference is reduced to: the guarded closure is not callable and the reply is an error",
                   "what leaves the node: unit outbox proves that a refused command puts nothing on the replication channel; the forwarding of a secondary's writes to its "
                   "primary happens inside the guarded closures (op_set / op_increment, unit consensus) and is covered end to end by the bounded family `forward` only"],
        assumptions=["str::starts_with is a prefix test (trusted shim)",
                     "closures: `opp` may be called only where its precondition is provable; the caller contract makes that precondition available only when "
                     "the session may access the key"],
    ),
    "C09": dict(
        units=["security", "store", "dispatch", "permissions", "outbox", "sessions", "parser", "consensus", "ids"],
        kani=[K_AUTH, K_KIND],
        undecided=["the ReplicateRequest (rp) arm; the Auth, UseDb and Resolve arms ARE verified with their own bodies (unit dispatch; unit sessions: a refused use-db leaves the whole "
                   "selection - database and user - as it was, an accepted user login binds exactly that user); of the closure bodies handed to the guards those of get / "
                   "get-safe / keys / set / remove / increment / watch / unwatch / unwatch-all / replicate / ack / set-primary / set-secoundary are verified in their units, the "
                   "remaining administrative ones (create-user, set-permissions, snapshot, join / leave, cluster-state, debug ...) are abstracted (R10)",
                   "mid-session permission changes",
                   "the text-level meaning of std's str::split / splitn (spec_split, head_of, tail_of are uninterpreted): the STRUCTURE of the decision of a stored permission list "
                   "(statements, kind letters, per-pattern matcher, any-of-any) is proved on the real code in unit permissions, the splitting itself is std's"],
        assumptions=["format!(\"$$permission_${}\", user) and format!(\"$$user_{}\", user) concatenate (trusted shims)",
                     "unit permissions: iterator adapters (split / chars / map / collect / into_iter / any) are trusted R11 shims over the closures' own contracts; the closures are the real ones; "
                     "Vec::contains is membership, derive(Clone) gives an equal value; fn pointers defunctionalised (R12)"],
    ),
    "C12": dict(
        units=["oplog", "rotation"],
        kani=[K_CODEC],
        undecided=["rotation: Oplog::get_log_file_append_mode (the rename) and the directory listing itself (fs::read_dir, creation times) are trusted models; that the rename keeps every "
                   "record of the rolled file is NOT decided by contract (remove_old_db_files IS verified over a directory token - unit rotation: the nine newest files are kept, exactly; Oplog::try_write_op_log IS verified to leave the accepted record as the last record of the live "
                   "stream also when the write rolled the file over; the bounded family logroll writes through two rotations on the real disk code, and - through the cfg(nundb_verif) hook - runs the declutter step after 9 / 12 / 15 "
                   "roll-overs: at most nine rotated files remain and the newest 150 records are all still answered)",
                   "that the directory listing really is sorted by creation time and that the files are in time order (get_op_log_entries_by_creation_date is a trusted external; "
                   "files_in_order is the hypothesis of lemma_most_recent_wins)",
                   "termination of the search loop is not proved (exec_allows_no_decreases_clause)",
                   "that the writer keeps timestamps non-decreasing and the file a whole number of records (preconditions sorted_log / well_formed_log)"],
        assumptions=["file model: std::fs::File is a byte sequence plus position; seek(Start) sets it; read never fails and is short only at EOF; metadata().len() is the size",
                     "BufWriter<File> in append mode is modelled by LogStream: write() of <= 25 bytes appends all of them",
                     "u64::from_le_bytes / to_le_bytes equal vstd's little-endian spec functions; format!(\"{}_{}\", db, key) is an uninterpreted text",
                     "every finite character sequence is the text of some String (axiom_string_exists)",
                     "the oplog directory is a list of opaque DirEntry values with a name; Vec::reverse reverses; format!(\"{}/{}\", dir, name) is an uninterpreted function of its "
                     "arguments (the same function names the file when it is read)"],
    ),
    "C13": dict(
        units=["consensus", "store", "listing", "snapshot", "outbox", "delivery"],
        undecided=["order across several queued writes beyond one step; arbiter disconnects (unwatch-all leaves an empty watcher list under $conflicts)",
                   "primary/secondary forwarding of resolve, replicas holding the resolved value",
                   "that the notice key (format! of key and op id) sorts in the order the conflicts were recorded; a conflicted key whose name ends with `*` or contains "
                   "`$conflicts_` (the queue of a key is found by pattern matching over all keys)"],
        assumptions=["list_conflicts_keys / has_pendding_conflict are external in unit consensus with exactly the contracts proved for their real bodies in unit listing",
                     "send_message_to_arbiter_client is trusted to hand exactly one message to the watchers of $conflicts",
                     "texts built with format! are uninterpreted; trusted: the notice key differs from the conflicted key, a notice does not start with "
                     "'resolved', 'resolved <v>' does"],
    ),
    "C16": dict(
        units=["ids", "oplogflag", "rotation"],
        undecided=["kills INSIDE one file operation (a torn key-map file, a half-written oplog record) and writes that reach the disk out of program order (no fsync anywhere): the "
                   "crash invariant of unit oplogflag is stated at the granularity of whole file operations, between any two of which the node may be killed",
                   "the start-up decision itself (bin/main.rs: flag 0 => clean metadata => since 0) and that the Databases value is built with the flag read from disk (in_sync at start)",
                   "the snapshot and create-db records of the oplog carry the constant key ids 1 and 2, which are not key identifiers (only update / remove records are covered)",
                   "that the identifier maps loaded from disk satisfy the invariants (they are preconditions here)",
                   "two threads generating key ids concurrently (generate_key_id reads the length under one lock and inserts under another)"],
        assumptions=["db_ids_small: identifiers in use are below usize::MAX", "unit ids: invalidate_oplog is replaced by a shim that touches no identifier map (R8); its real body is verified in unit oplogflag",
                     "unit oplogflag: the flag file and the key-map file are modelled by an explicit token (`disk__: &mut Disk`, R6: the disk made explicit) that only the shims standing for "
                     "`seek(0); write(&[b])` and write_keys_map_to_disk change; file operations are atomic and ordered; Oplog::try_write_op_log adds at most one record mentioning the given key id; "
                     "the three arms of start_replication_thread are extracted with the loop's locals as parameters (R10)"],
    ),
    "C17": dict(
        units=["sessions", "consensus", "http", "snapshot"],
        undecided=["that each transport calls Client::left exactly once when a session ends (tcp_ops / ws_ops / http_ops disconnect paths) - glue",
                   "two sessions interleaved at lock granularity (sequential semantics only)",
                   "the $connections key on an arbiter-strategy database while that key is in conflict resolution"],
        assumptions=["set_connection_counter is replaced by a shim in unit sessions (counter untouched); its real body is verified in unit consensus (C17.mirror)",
                     "is_valid_token / is_valid_user_token are external in unit sessions (their contracts are proved in unit store)",
                     "sessions are modelled abstractly in the accounting lemmas: a map from session ids to the selected database"],
    ),
    "C04": dict(
        units=["store", "consensus", "outbox", "parser", "pending", "traffic", "ids", "oplogflag"],
        undecided=["the protocol level of the statement: every delivery order that keeps links FIFO, 2-3 processes, two concurrent clients on the primary - no contract on one call states it; what is "
                   "decided is (a) per step, on the real store operations, that a write / remove / increment is a FUNCTION of the key's cell (text, version, state) and of the line's own "
                   "fields, (b) the machine-checked lemma that two nodes that agree and apply the same sequence of lines in the same order agree after every prefix, for any number of lines, "
                   "(c) line fidelity: what an accepted command leaves the node as, what the receiver parses, what the Replicate* handlers run, who is handed the operation",
                   "that every secondary really receives the primary's lines in the primary's order (one replication thread, FIFO links) is an assumption of lemma (b), not proved",
                   "databases with the `newer` strategy: the resolution compares op ids, which come from each node's own clock - the step is then NOT a function of cell and line alone; "
                   "covered by the bounded family replica only (values), as for C19",
                   "operations accepted by a SECONDARY: the node applies the write itself AND forwards it, and later receives the primary's copy of its own write - two open known findings "
                   "(the version of such a key runs ahead on the originating secondary; a resolution reaches a secondary twice); a remove accepted by a secondary was never handed to the "
                   "primary (defect 21, fixed by 58a84b1)",
                   "create-db / create-user / set-permissions / snapshot lines: create-user and set-permissions are writes of a key (covered as writes); create-db and replicate-snapshot "
                   "handlers are not under a C04 contract (the bounded family traffic compares the databases of both nodes)",
                   "snapshots change the state of a cell (dirty -> persisted) and thereby what a later remove leaves (tombstone or nothing): the relation replica_rel includes the state, "
                   "so the lemma holds when both nodes snapshot at the same points of the sequence; a node that snapshots on its own schedule is outside it"],
        assumptions=["set_exact / remove_exact / inc_exact pin the version and state arithmetic exactly (they restate, as one predicate each, what the C01 / C02 clauses of the same functions pin)",
                     "sequential semantics; op ids and disk addresses are node-local and excluded from the relation"],
    ),
    "C05": dict(
        units=["sync", "outbox", "oplog", "parser", "traffic", "ids"],
        undecided=["the protocol: join / replicate-since handshake, the supervisor loop, sockets, writes accepted during the synchronisation (async code, several processes)",
                   "the incremental path: that the operation-log query reports every pair changed since `since` is C12 (unit oplog); here ops_since(since) is any map of records whose "
                   "identifiers decode (precondition `decodes`: C16's subject); the comparison closure of its sort_by is replaced by a trusted shim (log order)",
                   "the receiving side: parse_replicate_command / parse_replicate_remove_command are verified to read `<db> <key> <VERSION> <value>` resp. `<db> <key>` from the "
                   "token stream (unit parser), and the `replicate` handler to apply exactly that (op_replicate_set); that format! and splitn are inverse to each other on "
                   "these lines is NOT proved (format strings and split are uninterpreted) - the bounded sweep feeds the real lines through the real parser; the CreateDb "
                   "handler is not under contract",
                   "startup: invalid oplog => since 0 (bin/main.rs)"],
        assumptions=["format! is an uninterpreted function of its literal and of the Display texts of its arguments (nfmt! shims); Display of a String / a Value is its text / its value",
                     "`map.values().collect()`, iteration over `&HashMap` and HashMap::clone are replaced by trusted list shims (every entry once)",
                     "sequential semantics (the real function holds the read lock of the database map for the whole emission)"],
    ),
    "C06": dict(
        units=["snapshot", "store", "driver", "outbox"],
        kani=[K_LIVE_VERSION, K_STATUS_CODEC],
        undecided=["file-system glue: that the files an incremental snapshot or the loader opens are the files the previous snapshot left (get_key_file_append_mode / "
                   "get_values_file_append_mode / get_key_write_mode: rename, remove, open) - trusted externals; the chain lemma C06.invariant-chains is about byte sequences",
                   "that the snapshot driver calls write_metadata_file and that the file a restart opens is the file it wrote (the two functions themselves are verified: 12 bytes, "
                   "id then strategy code, decoded back to the same id and strategy - C06.metadata-written / -loaded / -roundtrip)",
                   "get_keys_by_filter (iterator pipeline ending in a for_each that pushes into a captured vector) has a trusted specification over its filter closure's contract; "
                   "the filter of get_keys_to_update itself (`not Ok, or reclaiming`) is verified",
                   "torn or truncated files (C11): the loader is verified for sound images only",
                   "two threads (a client writing while the snapshot runs): sequential semantics only - storage_data_disk works on a clone of the entries and "
                   "set_value_as_ok writes the cloned value back",
                   "load_all_dbs_from_disk (directory listing) - glue; covered by the bounded sweep only. The snapshot driver IS verified (unit driver: add_db_to_snapshot_by_name, snapshot_db_by_name, snapshot_all_pendding_dbs - every requested snapshot of an existing database is taken once, in its own mode, after the key map; Vec::dedup is a trusted shim, the writes themselves are recorded on a token)"],
        assumptions=["disk model: BufWriter<File> in append mode takes every write whole (LogStream); write_at inside the file replaces exactly those bytes (RandFile); "
                     "File::read is short only at EOF; a file never exceeds i64::MAX bytes",
                     "the in-place handle and the append handle name the same key file (get_key_write_mode's trusted contract; R6 passes the append handle explicitly)",
                     "UTF-8: String::as_bytes / str::from_utf8 are inverse on valid texts and the encoding is canonical (axiom_utf8_roundtrip, axiom_utf8_canonical); "
                     "integer codecs are vstd's little-endian specs; every character sequence is the text of some String",
                     "64-bit target (global size_of usize == 8)", "fewer than 2^32 keys per database (the changed-keys counter is a u32)",
                     "the invariant `rel` is a PRECONDITION of an incremental snapshot; it is proved to be established by the reclaiming snapshot and by the loader, and kept by "
                     "the incremental snapshot and by set_value / remove_value / inc_value - the induction over a whole history is the composition of these lemmas, "
                     "it is not itself a machine-checked theorem over traces"],
    ),
    "C07": dict(
        units=["election", "members"],
        kani=[K_ROLE_CODEC],
        undecided=["the protocol half of the statement: that after any interleaving of candidacies, acknowledgements and set-primary messages between 2-3 nodes exactly one node "
                   "is Primary and all nodes name the same one (a global invariant over several processes and message orders; no contract on one call states it)",
                   "the Join / Leave / ElectionWin dispatcher arms and the supervisor's `election-win` => set-primary broadcast (async loop); the closures of the SetPrimary / "
                   "SetScoundary arms ARE verified (op_set_primary / op_set_scoundary: the link's tag follows the last announcement; told-primary becomes secondary)",
                   "that process_id really is the start time and is distinct between nodes (bin/main.rs)",
                   "that the claim made after all acknowledgements arrived re-checks eligibility AFTER the pause (a node that yielded while waiting must not claim): what IS "
                   "proved is that on every path some time is spent asleep between announcing and claiming (C07.no-claim-without-a-wait, explicit clock token); that the "
                   "eligibility test follows the last sleep is visible in the extracted body but is not a postcondition (election_win cannot carry a precondition because the "
                   "ElectionWin command calls it freely)",
                   "interference other than at thread::sleep: the role word is re-read after every sleep, other threads may change it at any instant"],
        assumptions=["sequential model with ONE interference point: thread::sleep may change this node's role and member table (shim_sleep), nothing else",
                     "replicate_message hands exactly one message to the replication thread or fails (trusted contract; body is 1 line over replicate_message_with_sender)",
                     "get_pending_opp_copy / is_full_acknowledged may return anything (their accounting is C15)",
                     "format! is an uninterpreted function of its literal and of the Display texts of its arguments (nfmt! shims)",
                     "0 < NUN_ELECTION_TIMEOUT < u128::MAX - 8 (configuration; default 1000)",
                     "the time asleep is an explicit token advanced only by thread::sleep (shim_sleep)"],
    ),
    "C14": dict(
        units=["traffic", "outbox", "members"],
        undecided=["the composition over several nodes: lemma_burst_bounded is proved over a step relation that transcribes the per-step clauses to COUNTS of messages in flight "
                   "(forwards, copies, acknowledgements); that every real handler step on every node is one of those steps - in particular that the member tables of the "
                   "nodes describe one cluster with one primary - is read off the contracts, not machine-checked",
                   "cluster-management traffic (join / leave / election / set-primary / replicate-since): those handlers start elections and synchronisations, whose traffic is "
                   "bounded by other arguments (C07: an election terminates); the clauses here are about data operations",
                   "what a full channel does to a line (the log counts attempts), real threads (sequential semantics), the TCP glue that writes a link's channel to its socket",
                   "create-user / set-permissions forward like set (same closure shape; not extracted here), remove is never forwarded (observed by the family forward)"],
        assumptions=["every line this node hands to another node's link goes through replicate_if_some (trusted: one try_send per call on the member's channel)",
                     "set_key_value's traffic contract in unit traffic (at most one line per member marked Primary, none on the primary) is the translation of what unit outbox PROVES on a "
                     "second, thin extraction of the conflict path (set_key_value / apply_change_to_db_try_fix_conflicts / try_resolve_conflict_response with every store operation a trusted "
                     "external): at most one call of send_message_to_primary, none on the primary or a starting node, none without the arbiter strategy; the two open findings are the "
                     "consequences of exactly that forward, and both are reproduced on the real code by the family traffic",
                     "iteration over the member table visits every entry once (R8 shim); register_pending_opp is proved in unit pending",
                     "the session channel has room for the acknowledgement (otherwise the rp handler panics: C10, family flood)"],
    ),
    "C20": dict(
        units=["http", "outbox", "sessions"],
        undecided=["the WebSocket transport (ws_ops::on_message pushes queued messages to the socket as they arrive: there is no reply vector to line up)",
                   "that start_http_client gives every request a fresh Client and channel and joins the entries with ';' (tiny_http glue, 4 lines)",
                   "messages other sessions send to this session's channel while the request runs (watch notices from concurrent writers): sequential semantics only",
                   "what each individual command returns or queues (process_request is the trusted boundary here; its content is the subject of C01-C19)"],
        assumptions=["the session's channel is modelled as a FIFO queue (Receiver::try_next takes the oldest message; nothing is lost or reordered)",
                     "process_request only appends to the session's own channel and every execution is recorded in the ghost call history (trusted contract)",
                     "`unwatch-all` leaves the session without subscriptions and Client::left releases its connection count (trusted here; the counter part is C17.left)",
                     "str::trim and `!=` on &str are functions of the text (trusted shims)"],
    ),
    "C19": dict(
        units=["consensus", "store", "outbox", "snapshot"],
        undecided=["two concurrent clients (lock elision)",
                   "'applied in the primary's order on every node': the pieces are decided - the line an accepted write leaves as (unit outbox), what the receiver reads from it "
                   "(unit parser, C05.parse-replicate), and that the `replicate` handler applies it through the same resolving operation as a client's set on every role "
                   "(op_replicate_set, unit consensus) - the composition over two processes is covered by the bounded family `replica` only"],
        assumptions=["Change::new stamps the resolving change with the wall clock (any u64)"],
    ),
    "C10": dict(
        units=["store", "consensus", "security", "ids", "oplog", "pending", "parser", "sessions", "http", "election", "snapshot", "sync", "listing", "permissions", "replies", "oplogflag", "members", "delivery", "outbox", "driver", "rotation"],
        reachable={"rotation": ["remove_old_db_files"], "driver": ["Databases::add_db_to_snapshot_by_name", "snapshot_db_by_name", "snapshot_all_pendding_dbs"], "delivery": ["Database::notify_watchers", "Database::send_message_to_arbiter_client", "Database::remove_value"], "outbox": ["process_request", "replicate_change", "replicate_request", "get_replicate_message", "get_replicate_remove_message", "get_replicate_increment_message", "get_resolve_message"], "members": ["Databases::add_cluster_member", "Databases::promote_member", "Databases::remove_cluster_member"], "oplogflag": ["invalidate_oplog", "mark_op_log_as_valid", "snapshot_keys", "generate_key_id", "arm_replicate_set", "arm_replicate_increment", "arm_replicate_remove"], "replies": ["get_key_value", "get_key_value_safe", "arm_get", "arm_get_safe", "arm_keys"], "permissions": ["Permission::from", "Permission::permissions_from_str", "From<char>@PermissionKind::from", "has_permission"], "listing": ["Database::list_keys", "filter_system_keys", "get_function_by_pattern", "starts_with", "ends_with", "contains", "Database::list_conflicts_keys",
                               "Database::has_pendding_conflict", "Database::register_arbiter"], "sync": ["make_create_db_command", "get_full_sync_opps", "get_pendding_opps_since"], "snapshot": ["get_keys_to_update", "write_metadata_file", "load_db_metadata_from_disk_or_empty", "ConsensuStrategy::to_le_bytes", "From<i32>@ConsensuStrategy::from", "NodeDrive::storage_data_disk", "write_value", "write_key", "update_key", "write_new_key_value", "get_key_disk_size", "create_db_from_file_name", "ValueStatus::to_le_bytes"], "http": ["process_commands"], "election": ["op_set_primary", "op_set_scoundary", "election_eval", "start_election", "start_new_election", "election_win", "Databases::get_role", "Databases::is_eligible", "Databases::is_primary", "From<usize>@ClusterRole::from"], "store": STORE_FNS, "security": SECURITY_FNS, "pending": ["ReplicationMessage::new", "ReplicationMessage::ack", "ReplicationMessage::replicated", "ReplicationMessage::is_full_acknowledged",
                   "ReplicationMessage::count_replication", "ReplicationMessage::count_acknowledged", "ReplicationMessage::get_copy", "Databases::register_pending_opp",
                   "Databases::acknowledge_pending_opp", "Databases::get_pending_opp_copy", "replicate_message_to_all", "replicate_message_to_secoundary", "op_acknowledge"],
                   "parser": PARSER_FNS, "sessions": ["Database::inc_connections", "Database::dec_connections", "Database::connections_count", "release_previous_db",
                   "Client::left", "Client::selected_db_name", "arm_use_db"], "oplog": ["read_operations_since", "read_operations_since_from_file", "Oplog::last_op_time", "Oplog::write_op_log", "Oplog::try_write_op_log", "ReplicateOpp::to_u8", "From<u8>@ReplicateOpp::from", "OpLogRecord::new"], "ids": ["generate_key_id", "create_temp_db", "Databases::add_database", "Databases::next_db_id"], "consensus": ["op_create_user", "op_set_permissions", "user_name_key_from_user_name", "permissions_key_from_user_name", "op_replicate_set", "op_set", "op_remove", "op_increment", "Database::try_resolve_conflict_response", "apply_change_to_db_try_fix_conflicts",
                   "set_key_value", "Database::resolve_conflit", "Database::has_arbiter_connected", "Change::new"]},
        undecided=["transport loops, dispatcher unwraps (e.g. try_send(..).unwrap() in the rp arm), lock poisoning propagation",
                   "Request::parse's table lookup (lazy_static HashMap of fn pointers) and the two snapshot parsers (iterator pipelines) are not verified",
                   "panics inside log:: arguments (R1 deletes log statements)"],
        assumptions=[],
    ),
}
