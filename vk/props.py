"""Which units decide which property, what stays undecided, what is assumed."""

COMMON_ASSUMPTIONS = [
    "Verus units verify the real function bodies of /repo after the mechanical rewrites R1-R8 of vk/extract.py "
    "(per-unit counts in coverage.extraction_rewrites, everything dropped listed in coverage.trusted_base): log:: statements deleted, "
    "RwLock/Mutex/Atomic* elided => sequential semantics only, no interleavings, no poisoning",
    "the command dispatcher process_request_obj (dyn Fn closures) is not verified: that it passes the parsed arguments to the "
    "functions under contract is assumed (glue)",
    "std HashMap/String/Vec behave as vstd specifies; obeys_key_model::<String>() and builds_valid_hashers::<RandomState>() are assumed "
    "as preconditions (hash_ok)",
    "Z3 (shipped with Verus) and the Verus VC generator are trusted",
]

STORE_FNS = ["Database::get_value", "Database::set_value_version", "Database::set_value_as_ok", "Database::set_value",
             "Database::remove_value", "Database::inc_value", "Change::next_version", "get_key_value_new", "remove_key",
             "is_valid_token", "is_valid_user_token", "Value::get_update_value_sate", "Value::is_in_conflict_resolution",
             "Change::allow_save_version", "Change::keep_in_conflict_resolution", "Change::resolving_conflict",
             "Change::to_resolve_change", "Change::to_different_version", "From<String>@Value::from", "From<&str>@Value::from"]

PROPS = {
    "C01": dict(
        units=["store"],
        undecided=["`keys` listing: the filter closure inside Database::list_keys (iterator adapters) is not verified",
                   "parser / dispatcher glue between the command line and these functions"],
        assumptions=["Display for Value prints its value field (trusted axiom; impl at bo.rs is compiled but not verified)",
                     "i32 <-> text conversions are uninterpreted with parse(print(n)) == Some(n)"],
    ),
    "C02": dict(
        units=["store", "consensus"],
        undecided=["interleavings of concurrent clients (set_value reads under one lock acquisition and writes under another): "
                   "lock elision makes every function sequential, so 'two writers never both succeed' is NOT decided"],
        assumptions=[],
    ),
    "C03": dict(
        units=["store"],
        undecided=["who is subscribed when (watch/unwatch/unwatch-all/disconnect races)", "delivery on a full channel (try_send)",
                   "final-view currency under concurrent writers"],
        assumptions=["notify_watchers is trusted to hand exactly one (key,value,version) record to the watchers of the key and to leave the store untouched"],
    ),
    "C15": dict(
        units=["pending"],
        undecided=["real atomics / locks are sequentialised (in production ack, replicated and the counters are all touched under the outer pending_opps write lock)",
                   "end-to-end observation through the cluster (rp / ack handlers in the dispatcher, replication thread)"],
        assumptions=["call-site condition of register_pending_opp / replicated: an operation is handed to a node at most once while that node still owes its "
                     "acknowledgement (replicate_message_to_secoundary iterates a map keyed by node name); it is a precondition, not proved at the call site",
                     "HashMap::get_mut has a hand-written trusted specification (no vstd spec)",
                     "AtomicUsize::fetch_add is modelled as a wrapping add on a plain usize"],
    ),
    "C13": dict(
        units=["consensus"],
        undecided=["order across several queued writes beyond one step, arbiter reconnects (register_arbiter's re-delivery loop is not under contract)",
                   "primary/secondary forwarding of resolve, replicas holding the resolved value",
                   "which $conflicts_ keys the listing returns (Database::list_keys is an iterator pipeline: trusted spec)"],
        assumptions=["list_conflicts_keys / has_pendding_conflict are trusted (uninterpreted listing; every listed key is in the map)",
                     "send_message_to_arbiter_client is trusted to hand exactly one message to the watchers of $conflicts",
                     "texts built with format! are uninterpreted; trusted: the notice key differs from the conflicted key, a notice does not start with "
                     "'resolved', 'resolved <v>' does"],
    ),
    "C19": dict(
        units=["consensus"],
        undecided=["two concurrent clients (lock elision)", "'applied in the primary's order on every node' (replication)"],
        assumptions=["Change::new stamps the resolving change with the wall clock (any u64)"],
    ),
    "C10": dict(
        units=["store", "consensus"],
        reachable={"store": STORE_FNS, "consensus": ["Database::try_resolve_conflict_response", "apply_change_to_db_try_fix_conflicts",
                   "set_key_value", "Database::resolve_conflit", "Database::has_arbiter_connected", "Change::new"]},
        undecided=["transport loops, dispatcher unwraps, lock poisoning propagation"],
        assumptions=[],
    ),
}
