#!/usr/bin/env python3
"""Confirms seeded changes in ONE scratch worktree of /repo (never /repo's own tree): for each seed dir given
  1. patch.diff applies to HEAD; `cargo test --lib` with it: every test that fails, other than the 5 storage::s3* tests (no network), is re-run ALONE (wall-clock tests of disk_ops flake under load);
     the seed is confirmed only if nothing but the s3 tests fails for good
  2. the demo test FAILS with patch + demo and PASSES with the demo alone
Writes <seed>/confirm.json.   usage: confirm_seeds.py <seed-dir> ..."""
import os, sys, json, subprocess, re
WT = "/var/tmp/seed-confirm/wt"
ENV = dict(os.environ, CARGO_TARGET_DIR="/var/tmp/seed-confirm-target", CARGO_NET_OFFLINE="true")
def sh(cmd, cwd=WT, timeout=3000):
    return subprocess.run(cmd, cwd=cwd, env=ENV, capture_output=True, text=True, timeout=timeout, shell=isinstance(cmd, str))
def tests(args):
    p = sh(["cargo", "test", "--offline", "--lib"] + args)
    out = p.stdout + p.stderr
    failed = sorted(set(re.findall(r"(?m)^test (\S+) \.\.\. FAILED", out)))
    passed = len(re.findall(r"(?m)^test \S+ \.\.\. ok", out))
    return passed, failed, ("error: could not compile" in out or "error[E" in out)
subprocess.run(["git", "-C", "/repo", "worktree", "remove", "--force", WT], capture_output=True)
subprocess.run(["git", "-C", "/repo", "worktree", "prune"], capture_output=True)
os.makedirs(os.path.dirname(WT), exist_ok=True)
subprocess.run(["git", "-C", "/repo", "worktree", "add", "--detach", WT, "HEAD"], capture_output=True, check=True)
head = subprocess.run(["git", "-C", "/repo", "rev-parse", "--short", "HEAD"], capture_output=True, text=True).stdout.strip()
for sd in sys.argv[1:]:
    sd = os.path.abspath(sd); name = os.path.basename(sd)
    meta = json.load(open(os.path.join(sd, "meta.json")))
    t = (meta.get("test_name") or "seeded_demo").split("::")[-1]
    res = dict(repo_head=head)
    sh("git checkout -- . && git clean -fdq")
    a = sh(["git", "apply", os.path.join(sd, "patch.diff")])
    res["patch_applies"] = a.returncode == 0
    if a.returncode != 0:
        res["note"] = a.stderr[-300:]; json.dump(res, open(os.path.join(sd, "confirm.json"), "w"), indent=1); print(name, "PATCH DOES NOT APPLY"); continue
    passed, failed, broken = tests([])
    hard = []
    for f in failed:
        if f.startswith("storage::s3"): continue
        p1, f1, _ = tests([f.split("::")[-1], "--", "--test-threads=1"])
        if any(x == f for x in f1): hard.append(f)
    res["with_patch"] = dict(compiles=not broken, passed_in_full_run=passed, failed_in_full_run=failed, still_failing_when_run_alone=hard)
    d = sh(["git", "apply", os.path.join(sd, "demo.diff")])
    _, fdemo, _ = tests([t])
    res["demo_with_patch_fails"] = any(x.endswith(t) for x in fdemo)
    sh("git checkout -- . && git clean -fdq")
    d2 = sh(["git", "apply", os.path.join(sd, "demo.diff")])
    pd, fd, _ = tests([t])
    res["demo_on_clean_tree_passes"] = d2.returncode == 0 and pd >= 1 and not fd
    res["confirmed"] = bool(res["patch_applies"] and not broken and not hard and res["demo_with_patch_fails"] and res["demo_on_clean_tree_passes"])
    json.dump(res, open(os.path.join(sd, "confirm.json"), "w"), indent=1)
    print(name, "CONFIRMED" if res["confirmed"] else "NOT CONFIRMED", json.dumps(res["with_patch"])[:300], flush=True)
sh("git checkout -- . && git clean -fdq")
subprocess.run(["git", "-C", "/repo", "worktree", "remove", "--force", WT], capture_output=True)
