#!/usr/bin/env python3
"""False-alarm test: apply every /verif/harmless/<id>/h*.diff (behaviour-preserving refactorings written by independent agents) to a scratch worktree of /repo
in turn and run EVERY property's quick check against it.  A check may pass (0) or be undecided (2: the refactored shape no longer extracts) - it must never report a
violation (1).  Writes /verif/harmless/RESULTS.json.   usage: run_harmless.py [<id>/<file> ...]"""
import os, json, subprocess, sys, glob
from concurrent.futures import ThreadPoolExecutor
VERIF = os.path.dirname(os.path.dirname(os.path.abspath(__file__)))
WT = os.environ.get("VERIF_SEEDS_WT", "/var/tmp/verif-seed-wt/harmless")
TARGET = os.environ.get("VERIF_SEEDS_TARGET", "/var/tmp/verif-replay-target-seeds2")
PROPS = ["C01", "C02", "C03", "C04", "C05", "C06", "C07", "C08", "C09", "C10", "C12", "C13", "C14", "C15", "C16", "C17", "C19", "C20"]
if os.environ.get("VERIF_HARMLESS_PROPS"): PROPS = os.environ["VERIF_HARMLESS_PROPS"].split(",")   # developer option: only these properties' checks
only = sys.argv[1:]
res = {}


def run_check(prop):
    p = subprocess.run([os.path.join(VERIF, "check"), prop], capture_output=True, text=True, timeout=3600,
                       env=dict(os.environ, VERIF_EVIDENCE_DIR="/var/tmp/verif-seed-evidence", VERIF_REPO=WT, VERIF_REPLAY_TARGET=TARGET,
                                VERIF_BUILD="/var/tmp/verif-build-harmless-%s" % prop))
    lines = [l for l in p.stdout.split("\n") if l.startswith(("VIOLATION", "INFRA"))]
    return prop, p.returncode, lines


for d in sorted(glob.glob(os.path.join(VERIF, "harmless", "*", "h*.diff"))):
    name = os.path.relpath(d, os.path.join(VERIF, "harmless"))
    if only and name not in only: continue
    head = subprocess.run(["git", "-C", "/repo", "rev-parse", "HEAD"], capture_output=True, text=True).stdout.strip()
    have = subprocess.run(["git", "-C", WT, "rev-parse", "HEAD"], capture_output=True, text=True).stdout.strip() if os.path.isdir(WT) else ""
    if have != head:
        subprocess.run(["git", "-C", "/repo", "worktree", "remove", "--force", WT], capture_output=True)
        subprocess.run(["git", "-C", "/repo", "worktree", "prune"], capture_output=True)
        subprocess.run(["git", "-C", "/repo", "worktree", "add", "--detach", WT, "HEAD"], capture_output=True, text=True, check=True)
    subprocess.run(["git", "-C", WT, "checkout", "--", "."], capture_output=True)
    a = subprocess.run(["git", "-C", WT, "apply", d], capture_output=True, text=True)
    if a.returncode != 0:
        res[name] = dict(applied=False, note=a.stderr[-300:]); print(name, "DOES NOT APPLY", flush=True); continue
    try:
        # the native sweep binary is built once (by the first check), then the others run four at a time
        first = run_check(PROPS[0])
        with ThreadPoolExecutor(max_workers=4) as ex:
            out = [first] + list(ex.map(run_check, PROPS[1:]))
    finally:
        subprocess.run(["git", "-C", WT, "checkout", "--", "."], capture_output=True)
    codes = {p: rc for p, rc, _ in out}
    alarms = {p: ls for p, rc, ls in out if rc == 1}
    res[name] = dict(applied=True, exit_codes=codes, false_alarms=alarms, undecided=[p for p, rc, _ in out if rc == 2])
    print(name, "FALSE ALARM %s" % alarms if alarms else "ok", "undecided:", res[name]["undecided"], flush=True)
subprocess.run(["git", "-C", "/repo", "worktree", "remove", "--force", WT], capture_output=True)
subprocess.run(["git", "-C", "/repo", "worktree", "prune"], capture_output=True)
outp = os.path.join(VERIF, "harmless", "RESULTS.json")
old = json.load(open(outp)) if os.path.exists(outp) else {}
old.update(res)
json.dump(old, open(outp, "w"), indent=1)
