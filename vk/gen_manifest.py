#!/usr/bin/env python3
"""Regenerates /verif/MANIFEST.json from vk/props.py + vk/manifest_meta.py (single source of truth)."""
import json, os, sys
HERE = os.path.dirname(os.path.abspath(__file__))
sys.path.insert(0, HERE)
import props as P
import manifest_meta as M

checks = []
for pid in sorted(P.PROPS):
    meta = M.CHECKS[pid]
    checks.append(dict(
        property_id=pid,
        quick_cmd="./check %s --tier quick" % pid,
        thorough_cmd="./check %s --tier thorough" % pid,
        evidence_file="/verif/evidence/%s.json" % pid,
        replay_cmd_template="./check %s --replay {path}" % pid,
        engine=meta["engine"],
        level_claimed=dict(category="proof", text=meta["text"] + M.TEXT_ADDENDA.get(pid, ""), design_ref=meta["design_ref"]),
        level_note=meta["level_note"],
        technique=meta["technique"],
    ))
man = dict(
    version=1,
    setup_cmd=M.SETUP,
    hooks=M.HOOKS,
    engines=M.ENGINES,
    checks=checks,
    notes=M.NOTES,
    not_applicable=[dict(property_id=k, reason=v) for k, v in sorted(M.NOT_APPLICABLE.items()) if k not in P.PROPS],
)
json.dump(man, open(os.path.join(os.path.dirname(HERE), "MANIFEST.json"), "w"), indent=1)
print("MANIFEST.json: %d checks, %d not_applicable" % (len(checks), len(man["not_applicable"])))
