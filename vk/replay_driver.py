"""Witness search / replay on the real code (native build of $VERIF_REPO through /verif/replay)."""
import os, json, subprocess, shutil, hashlib

HERE = os.path.dirname(os.path.abspath(__file__))
VERIF = os.path.dirname(HERE)
REPO = os.environ.get("VERIF_REPO", "/repo")
TARGET = os.environ.get("VERIF_REPLAY_TARGET", "/var/tmp/verif-replay-target")   # background runs from a snapshot use their own target dir

CARGO_TOML = """[package]
name = "nundb-replay"
version = "0.0.1"
edition = "2018"

[dependencies]
nundb = { package = "nun-db", path = "%s" }
futures = "0.3.1"
ws = "0.9.2"

[workspace]
"""


def build():
    """build /verif/replay/src/main.rs against REPO; returns path of the binary (raises on failure)"""
    crate = "/var/tmp/verif-replay-crate-" + hashlib.sha1((REPO + "|" + VERIF).encode()).hexdigest()[:8]
    os.makedirs(os.path.join(crate, "src"), exist_ok=True)
    shutil.copy(os.path.join(VERIF, "replay", "src", "main.rs"), os.path.join(crate, "src", "main.rs"))
    open(os.path.join(crate, "Cargo.toml"), "w").write(CARGO_TOML % REPO)
    lock = os.path.join(REPO, "Cargo.lock")
    if not os.path.exists(lock):
        lock = "/repo/Cargo.lock"
    shutil.copy(lock, os.path.join(crate, "Cargo.lock"))
    env = dict(os.environ); env["CARGO_NET_OFFLINE"] = "true"; env["CARGO_TARGET_DIR"] = TARGET
    # hooks on: cfg(nundb_verif) exposes http_ops::process_commands to this crate (MANIFEST.hooks)
    env["RUSTFLAGS"] = (env.get("RUSTFLAGS", "") + " --cfg nundb_verif").strip()
    p = subprocess.run(["cargo", "build", "--offline"], cwd=crate, env=env, capture_output=True, text=True, timeout=1800)
    if p.returncode != 0:
        raise RuntimeError("replay crate does not build against %s: %s" % (REPO, p.stderr[-800:]))
    return os.path.join(TARGET, "debug", "nundb-replay")


def search(prop, failure):
    label = failure.get("label", "")
    if failure.get("kind") == "overflow" or label in ("proof-step",):
        label = "C10.safety"
    try:
        exe = build()
    except Exception as e:
        return dict(found=False, note=str(e)[:500])
    p = subprocess.run([exe, "search", label], capture_output=True, text=True, timeout=900)
    try:
        r = json.loads(p.stdout.strip().split("\n")[-1])
    except Exception:
        return dict(found=False, note="witness search gave no result: %s" % (p.stdout + p.stderr)[-300:])
    if r.get("found"):
        r["replay_cmd"] = "%s run %s %s:%s" % (exe, label, r["family"], r["scenario"])
        r["label_searched"] = label
    else:
        r["note"] = ("no scenario of the bounded witness families (store / strategy / pending / ids, %s scenarios) violates the clause; "
                     "the violation stands on the verifier's refusal alone" % r.get("tried"))
    return r


def sweep(prop):
    """bounded stand-in: run every scenario family on the real code; returns dict(scenarios, families, violations[...])"""
    exe = build()
    p = subprocess.run([exe, "sweep", prop], capture_output=True, text=True, timeout=1800)
    try:
        return json.loads(p.stdout.strip().split("\n")[-1])
    except Exception:
        raise RuntimeError("sweep gave no result: %s" % (p.stdout + p.stderr)[-400:])


def replay(prop, path):
    rec = json.load(open(path))
    w = rec.get("witness") or {}
    print("replay: property=%s obligation=%s engine=%s" % (rec.get("property"), rec.get("obligation"), rec.get("engine")))
    print("verifier said: %s" % rec.get("verifier_message"))
    print("clause / expression: %s" % rec.get("clause_or_expression"))
    if w.get("found") and w.get("family"):
        exe = build()
        label = w.get("label_searched") or rec.get("label")
        p = subprocess.run([exe, "run", label, "%s:%s" % (w["family"], w["scenario"])], capture_output=True, text=True, timeout=300)
        print(p.stdout.strip())
        if p.returncode == 1:
            print("VIOLATION property=%s replay=%s (reproduced on the real code: %s:%s)" % (prop, path, w["family"], w["scenario"]))
            return 1
        print("not reproduced on the current tree (scenario no longer violates %s)" % label)
        return 0
    if w.get("found") and w.get("input"):
        print("kani concrete playback values:\n%s" % w["input"])
    # no concrete witness: re-run the deciding check and report whether the obligation still fails
    print("no concrete failing input is recorded (no-failing-input-found); re-running the check that owns the obligation ...")
    p = subprocess.run([os.path.join(VERIF, "check"), prop], capture_output=True, text=True)
    print(p.stdout)
    still = [l for l in p.stdout.split("\n") if l.startswith("VIOLATION") and rec.get("obligation", "@@") in l]
    return 1 if still else 0
