SETUP = "./setup.sh"
HOOKS = dict(
    guard="cfg(kani) and cfg(nundb_verif)",
    enable="cargo kani sets --cfg kani by itself (harness modules); the native replay/sweep crate is built with RUSTFLAGS='--cfg nundb_verif' "
           "(vk/replay_driver.py), which exposes http_ops::verif_process_commands and disk_ops::verif_remove_old_db_files, public wrappers around the private process_commands and remove_old_db_files; "
           "Verus units need no hook (functions are extracted from /repo/src on every run)",
    baseline_off_cmd="cd /repo && cargo test --workspace --no-fail-fast --offline",
    source_commits=["9b2d413", "089481e", "f29fb54", "b91bd80", "e4b729e", "534e313"],
    add_only=True,
)
ENGINES = [
    dict(name="kani-harnesses", path="/verif/vk/kani_unit.py", serves_properties=["C01", "C02", "C06", "C07", "C08", "C09", "C12"],
         kind_free_text="cargo kani on the real crate; harness files /verif/kani/*_proofs.rs are compiled into the defining modules through cfg(kani) hooks; "
                        "loop-free full-domain harnesses are complete, harnesses with symbolic strings are bounded stand-ins and never counted as proved"),
    dict(name="verus-units", path="/verif/vk/verus_unit.py", serves_properties=["C01", "C02", "C03", "C04", "C05", "C06", "C07", "C08", "C09", "C10", "C12", "C13", "C14", "C15", "C16", "C17", "C19", "C20"],
         kind_free_text="mechanical extraction of the real functions (vk/extract.py, rules R1-R8) + contracts/<unit>.vc, discharged by Verus 0.2026.09.13 / Z3; "
                        "every diagnostic is mapped back to a named obligation (function::label)"),
]
NOTES = ("Exit codes of every check: 0 = all obligations of the property discharged; 1 = VIOLATION line(s); "
         "2 = INFRA/undecided (anchor lost, unsupported construct, solver limit) - never an alarm. "
         "known findings: /verif/known_findings.json. Design: /verif/DESIGN.md.")

CHECKS = {
    "C01": dict(
        engine="verus-units", design_ref="DESIGN.md §5 C01", technique="deductive verification (Verus/Z3) of function contracts on extracted real code",
        text="Unbounded proof, for every map state and every argument, that each store operation the commands get/get-safe/set/set-safe/remove/increment "
             "are built from (Database::get_value, set_value, set_value_version, set_value_as_ok, remove_value, inc_value, db_ops::get_key_value_new, remove_key) "
             "satisfies the plain-map contract of the statement, including 'a refused command changes nothing' and whole-map frames; and that `keys <pattern>` "
             "(the real Database::list_keys with its filter and map closures verbatim, get_function_by_pattern, starts_with / ends_with / contains) lists exactly the live keys "
             "matching the prefix* / *suffix / contains pattern, each once, sorted, $$ keys only when the caller is entitled to them; and that the REAL dispatcher arms Get / "
             "GetSafe / Keys, with their closure bodies kept (unit replies), answer - when not refused - with the store's answer for the request's key in the database the session "
             "selected, resp. with the comma-joined listing of that database for the request's pattern. "
             "Right level because the property is a statement about one data structure; wrong tool for the parser/dispatcher, which is left as glue.",
        level_note='Sequential semantics only (locks elided by extraction rule R2). Trusted: vstd HashMap/String specs, Display for Value prints its value, uninterpreted i32<->text with parse(print(n))==Some(n), derive(Clone) gives an equal value. Unit listing: the iterator adapters iter/filter/map/collect and Vec::sort are trusted shims (the closures handed to them are the real ones and are verified against their own contracts), the fn pointers of get_function_by_pattern are defunctionalised, String order is uninterpreted. The closures of the writing arms (set / remove / increment) are lifted to functions and verified (unit consensus); process_request itself is under contract (unit outbox: the command that runs is the parse of the received line minus only its line feeds). NOT decided: the command-word table of Request::parse.'),
    "C02": dict(
        engine="verus-units", design_ref="DESIGN.md §5 C02", technique="deductive verification (Verus/Z3) of function contracts on extracted real code",
        text="Unbounded proof of the sequential half: Change::next_version equals the five-way version rule; Database::set_value refuses exactly when the requested "
             "version is not above the stored one (for all i32 versions), always accepts a write to an absent key, and every accepted set/increment/remove leaves a "
             "strictly higher version.",
        level_note="The concurrency half of C02 (two writers with the same base version never both succeed; no lost update under interleavings) is NOT decided: "
                   "lock elision makes each function sequential. Trusted base as for C01.",
    ),
    "C03": dict(
        engine="verus-units", design_ref="DESIGN.md §5 C03", technique="deductive verification (Verus/Z3) of function contracts on extracted real code",
        text="Emission clause only: every accepted set/set-safe/increment hands exactly one record carrying the committed value (and version) to the watcher list of "
             "that key, every accepted remove exactly one removed record, a refused write none - proved for all states and arguments against an uninterpreted send log.",
        level_note="The try_send loops of notify_watchers, of the removed-notification in remove_value and of the arbiter notices ARE verified against a per-channel model (unit delivery: every registration of the key is handed its lines once, nobody else anything); in the store / consensus units those functions appear as trusted externals with a database-level log. Trusted there: clones of a Sender are handles of one channel; whether a full channel takes the line is not modelled. Subscription races, 'ends up current' under concurrent writers are NOT decided."),
    "C08": dict(
        engine="verus-units+kani", design_ref="DESIGN.md §5 C08", technique="deductive verification (Verus/Z3) of guard contracts with closure preconditions; Kani/CBMC harness for the listing filter",
        text="Unbounded proof of the guards: in apply_if_safe_access / apply_to_database_name_if_has_permission / has_permission the guarded operation (a closure) "
             "carries a precondition that the caller contract provides only when the session may access the key - for a key starting with $$ that means an "
             "administrator session - so Verus rejects any path that reaches the closure without the check; a non-administrator asking for a $$ key gets an "
             "error whatever is stored; Database::remove_value refuses $$token for everybody and changes nothing; the REAL dispatcher arms of get / get-safe / "
             "watch / set / increment / remove (extracted arm by arm, closure bodies abstracted) pass the request's own key through that guard; the real "
             "Database::list_keys (filter closure verbatim) and filter_system_keys list a $$ key only for a caller entitled to system keys, and the real Keys arm (closure body "
             "kept) asks for system keys exactly for an administrator session. Bounded Kani "
             "harness (thorough tier, not counted): filter_system_keys on 3-byte keys.",
        level_note='Noninterference is reduced to: the guarded closure is not callable and the reply is an error; a refused login leaves the whole selection unchanged (unit sessions); a refused command leaves nothing on the replication channel (unit outbox). The rp arm is NOT covered. str::starts_with is a trusted prefix test. Sequential semantics. The Kani harness is bounded (3-byte keys) and is not counted as proved.'),
    "C09": dict(
        engine="verus-units+kani", design_ref="DESIGN.md §5 C09", technique="deductive verification (Verus/Z3) of guard contracts with closure preconditions; complete loop-free Kani harnesses",
        text="Unbounded proof: apply_if_auth runs its operation only for an authenticated administrator session and otherwise answers with an error; "
             "apply_if_safe_access / apply_to_database* answer with an error unless the session selected an existing database and (for keyed commands) the "
             "permission decision allows the key and kind; has_permission: $$ keys admin only, a user without a permission list reaches no key, a token "
             "session without an 'all' list has full access, otherwise the stored list decides; is_valid_token / is_valid_user_token equal the lookup of "
             "$$token / $$user_<name>. The command -> credential table is proved on the REAL arms of process_request_obj (34 arms extracted one by one, rule "
             "R10): each keyed data command asks the guard for exactly the kind the property names (get/get-safe/watch: read, set: write, increment, remove), "
             "20 administrative / cluster commands run their operation only for an administrator session, keys / unwatch / unwatch-all / arbiter only with a "
             "selected existing database; the UseDb, Auth and Resolve arms are verified with their own bodies (a refused use-db leaves database and user selection untouched; "
             "the admin flag needs user AND password; resolve needs write access to the key). The decision of a stored permission list is proved on the REAL parsing and "
             "matching code (unit permissions: Permission::permissions_from_str, Permission::from, PermissionKind::from(char), the two nested `.any(..)` closures of "
             "has_permission verbatim): a list grants (key, kind) iff one of its `|`-separated statements lists the kind among its letters and one of its comma-separated "
             "patterns matches the key, each pattern with its own prefix* / *suffix / contains matcher. Complete Kani harnesses: apply_if_auth (call counter), PermissionKind letters.",
        level_note="std's str::split / splitn are uninterpreted (the pieces they yield), the iterator adapters are trusted shims over the closures' contracts (R11), fn pointers are defunctionalised (R12). The rp arm and the closures of the remaining administrative arms (create-user, set-permissions, snapshot, join / leave, cluster-state, debug) are NOT verified; mid-session changes of a permission list are covered by the bounded sweep (family permchange) - has_permission reads the stored list on every call, which is what its contract states."),
    "C12": dict(
        engine="verus-units+kani", design_ref="DESIGN.md §5 C12", technique="deductive verification (Verus/Z3) with loop invariants over an abstract file model; complete Kani harness for the op-kind codec",
        text="Unbounded proof over all logs (any number of 25-byte records with non-decreasing, possibly repeating timestamps) and all starting timestamps: "
             "read_operations_since_from_file - the real binary search, look-back and linear scan, with inductive invariants - returns every (database, key) "
             "that has a record at or after the timestamp, each labelled with the time / db / key / kind of its most recent record, leaves other entries alone, "
             "and never underflows or reads out of bounds; Oplog::last_op_time is the newest record's timestamp (0 for an empty log); Oplog::write_op_log "
             "appends exactly one record and decoding it gives the fields back (round-trip lemma). read_operations_since (the real loop over the rotated files, oldest "
             "first, then the live file; loop invariant `folded`) returns, for any number of files, every pair with a record at or after the timestamp in any file, labelled "
             "with its record in the newest file that mentions it - with the files in time order that is its most recent record (lemma_most_recent_wins). "
             "Kani: ReplicateOpp to_u8/from over all 256 bytes.",
        level_note="Trusted file and directory model (see evidence). The writer across a roll-over IS verified (try_write_op_log: an accepted record is the last record of the live stream). Rotation itself (rename in get_log_file_append_mode) and remove_old_db_files are covered by the bounded family logroll only (through a guarded hook); termination of the search loop and the writer-side facts 'timestamps never go back', 'files in time order' (preconditions / lemma hypothesis) are NOT decided."),
    "C13": dict(
        engine="verus-units", design_ref="DESIGN.md §5 C13", technique="deductive verification (Verus/Z3) of function contracts on extracted real code",
        text="Single-call clauses, single node, for all states: the Arbiter branch of try_resolve_conflict_response either refuses and changes nothing (no arbiter "
             "registered) or keeps the key's pre-conflict value and disk state, marks it in-conflict, records a pending notice under the $conflicts_ key, hands "
             "exactly one notice to the arbiter and touches no other key; resolve_conflit marks the notice resolved, stores the arbiter's value, and leaves the "
             "in-conflict state exactly when no live notice of the key is unanswered (has_pendding_conflict and list_conflicts_keys are verified on their real bodies in "
             "unit listing: every notice is looked at, not just the newest). register_arbiter (real loop, with invariants): the registering client becomes a watcher of "
             "$conflicts and is sent exactly the unanswered notices, once each, in queue order; answered notices are dropped; nothing else in the store moves. "
             "set_key_value / apply_change_to_db_try_fix_conflicts carry the clause 'a refused write never changes the key' to the client-facing entry point.",
        level_note='Trusted: the iterator adapters behind the $conflicts_ listing (R11 shims; closures verified), format! texts (uninterpreted with axioms). The arbiter send loop IS verified (unit delivery: every registered arbiter is told once); the loader keeps keys in conflict (unit snapshot); a resolved value leaves the node as the line of an ordinary write (unit outbox). NOT decided: queue order across several writes, arbiter disconnects, the multi-node resolve path.'),
    "C16": dict(
        engine="verus-units", design_ref="DESIGN.md §5 C16", technique="deductive verification (Verus/Z3) of function contracts and representation invariants on extracted real code",
        text="For all states. Identifier freshness: generate_key_id returns the existing id of a known key (maps unchanged) or a fresh id for a new "
             "key and keeps keys_map / id_keys_map inverse of each other with pairwise distinct ids; Databases::next_db_id / create_temp_db hand out a database id "
             "that is not registered, and add_database keeps 'every database is filed under its own id' (hence no two databases share an id). "
             "Order of the writes (unit oplogflag, the disk made explicit as a token): the crash invariant 'flag on disk = 1 implies the key map ON DISK names every key id the "
             "oplog mentions' holds after every file operation of the real invalidate_oplog, mark_op_log_as_valid, snapshot_keys (key map written BEFORE the flag is set), "
             "generate_key_id (flag cleared BEFORE it returns the new id) and the three arms of the replication thread that log a key (id registered BEFORE the record is "
             "appended) - so a kill between any two file operations leaves a node that either discards its log or decodes it.",
        level_note="File operations are atomic and reach the disk in program order (no fsync in the code); kills inside one write (torn key map / record) are C11-like and NOT decided; "
                   "the start-up decision in bin/main.rs and the invariants of the maps loaded from disk are preconditions. Sequential semantics (the seed that sets the flag first "
                   "argues with a race between the replication thread and the snapshot: not decided either way).",
    ),
    "C17": dict(
        engine="verus-units", design_ref="DESIGN.md §5 C17 (added in §10)", technique="deductive verification (Verus/Z3) of function contracts on extracted real code, incl. one dispatcher arm (R10), plus accounting lemmas",
        text="For all states: the REAL UseDb arm of the dispatcher raises the counter of the selected database by one and releases the database the session had "
             "selected before (re-selecting the same database is neutral), a refused use-db moves no counter; Client::left lowers the counter of the selected "
             "database by one and touches no other; inc/dec never overflow or underflow under the accounting invariant; set_connection_counter writes the "
             "counter's text under $connections through set_key_value (whose watchers are notified). Lemmas: if every counter equals the number of sessions "
             "counting for its database, it still does after any select / leave step - hence after any finite sequence - and a counter some session counts for is "
             "positive, which is exactly the precondition of the decrements.",
        level_note="Sequential semantics. That the three transports call Client::left exactly once per ended session is glue (checked only by the bounded "
                   "sweep through the public API). get_mut / mem::replace have trusted specs.",
    ),
    "C05": dict(
        engine="verus-units", design_ref="DESIGN.md §10 'C05 contract notes'", technique="deductive verification (Verus/Z3) of function contracts with loop invariants on the extracted real synchronisation emitters (full and incremental); four obligations fail on the unchanged tree and are recorded as known findings with concrete witnesses",
        text="Emitter half of the statement, for every set of databases and keys: the REAL get_full_sync_opps announces every database except $admin (name and token), "
             "sends a line for every live key of it and ends it with the snapshot request (discharged, with loop invariants over both loops); get_pendding_opps_since sends "
             "everything when since == 0. The REAL incremental emitter get_pendding_opps_since_from_sync (loop invariant: the cached database handle is the database the last "
             "record named) sends one line per record of the operation-log query, in log order, each carrying what the primary holds NOW for the database and key the record names. "
             "Four clauses taken from the statement FAIL on the unchanged tree and are listed in known_findings.json, each with the failed "
             "obligation and a witness scenario of the bounded sweep (which feeds the real lines through the real parser of an empty node and compares datasets): the lines "
             "lack the version field the receiver parses (values and versions do not arrive; full and incremental emitter), removed keys are sent as live writes, and the conflict strategy of a database "
             "is not sent. The existing unit tests pin the emitted strings, so none of them can be repaired without editing tests.",
        level_note='Under contract: the two resynchronisation emitters (unit sync, with four open known findings), the live emitter and its line builders (unit outbox), the receiving parsers of replicate / replicate-remove (unit parser), the multi-file catch-up query (unit oplog). The join handshake, the CreateDb handler and writes accepted during the synchronisation are NOT decided. A known finding suppresses exactly its own obligation (or its own sweep scenario): any other failing clause or scenario is still a VIOLATION.'),
    "C06": dict(
        engine="verus-units", design_ref="DESIGN.md §10 'C06 contract notes'", technique="deductive verification (Verus/Z3) of function contracts, loop invariants and an invariant over snapshot histories on the extracted real disk writer, loader and store operations, over an abstract disk image",
        text="For every database state, every key/value length and both snapshot modes: (1) the REAL NodeDrive::storage_data_disk produces exactly the per-state write "
             "plan of the statement, every address it records - on disk and in memory - is the offset at which that record really starts, in-place writes stay inside "
             "the key file and touch only the 12-byte slots of the keys being updated or removed, memory keeps every value and version; write_value / write_key / "
             "update_key produce the exact byte layouts; (2) the REAL loader create_db_from_file_name turns any sound image into exactly the map the image means; "
             "(3) writer layout and loader layout are inverse; (4) an invariant `rel` (every persisted key owns exactly the record at its remembered address, every "
             "record that is not a tombstone belongs to a key in memory, a key marked in sync holds on disk what memory holds) is ESTABLISHED by the space-reclaiming "
             "snapshot and by the loader, KEPT by the incremental snapshot (loop invariant of the real function) and by the real set_value / remove_value / inc_value, "
             "and IMPLIES that the files left by either snapshot mode load back to exactly the live keys, values and versions of memory (no removed key resurrected, "
             "no other key altered); (5) no accepted write or increment leaves a live key at version -1, the on-disk deletion marker. A bounded native sweep runs "
             "set/remove/increment/snapshot/restart histories on the real code and compares the reloaded database with the snapshotted one.",
        level_note="Sequential semantics over a trusted disk model. Each link (establish / keep / implies) is a discharged obligation on real code or a lemma; their "
                   "composition over a whole history is an induction a reader does, not a trace theorem. File-system glue (rename / remove / open), metadata files, the "
                   "torn files are trusted or out of scope (the snapshot driver is verified: unit driver).",
    ),
    "C07": dict(
        engine="verus-units", design_ref="DESIGN.md §10 'C07 contract notes'", technique="deductive verification (Verus/Z3) of function contracts, loop invariants and termination measures on the extracted real election_ops functions (single-node clauses only)",
        text="Single-call half of the statement, for all start times, roles, member counts and whatever the pending-operation table answers: the REAL election_eval makes "
             "a node yield (become Secondary, answer `election alive` once, not stand) exactly when the candidate has been running longer, contest (announce its own "
             "candidacy carrying its own start time and external address exactly once, or win at once when alone) exactly when the candidate is younger, and ignore its "
             "own candidacy; the REAL start_election / start_new_election terminate (both wait loops have a decreasing measure bounded by the election timeout, with the "
             "node's role allowed to change at every sleep) and never leave the node undecided unless the candidacy could not be handed over; election_win makes the node "
             "Primary and tells the supervisor. The member table of ONE node (unit members: the REAL add_cluster_member with its demotion loop, promote_member, "
             "remove_cluster_member) never names two primaries: adding or promoting a primary turns every other member into a secondary. "
             "The bounded native sweep runs the same calls on real Databases objects (1-2 members, 3 roles, boundary start times).",
        level_note="NOT decided: 'exactly one primary, the oldest, and all agree' over 2-3 nodes and all message interleavings - a multi-process invariant no single call's contract states; the Join / Leave arms and the supervisor's set-primary broadcast. Decided per call: role comparison, candidacy, termination, outcome of one election call, no claim without a wait (explicit clock), the link tag set by set-primary / set-secoundary, the member table. Sequential model with interference only at thread::sleep. A change that breaks the protocol without changing what one call does is not detected."),
    "C20": dict(
        engine="verus-units", design_ref="DESIGN.md §5 C20 (claimed in §10 after fix a6540e8)", technique="deductive verification (Verus/Z3) of a function contract with loop invariants on the extracted real process_commands, over a FIFO model of the session's channel with a ghost call history",
        text="For every body (any number of commands, any blanks, any trailing ';') and whatever each command returns or queues: the REAL "
             "http_ops::process_commands executes every non-blank trimmed command exactly once in body order (then `unwatch-all`), returns exactly one entry per "
             "executed command, and entry i is what command i itself produced - its error text, else the first message it queued itself, else `empty` - because "
             "the loop invariant 'the session's queue is empty when the next command starts' holds; at the end the session holds no subscription and no "
             "connection count. process_request is a trusted boundary that may return anything and append any messages; each execution is recorded in a ghost "
             "history so 'once each, in order' is a postcondition, not an assumption. The bounded native sweep runs bodies of 1-3 commands through the real "
             "function (hook cfg(nundb_verif)) against per-command expectations.",
        level_note="HTTP only: the WebSocket transport streams queued messages and has no reply vector. Sequential: messages pushed by other sessions during "
                   "the request are not modelled. start_http_client's glue (fresh Client per request, join with ';') is not verified. What a command returns or "
                   "queues is not decided here.",
    ),
    "C04": dict(
        engine="verus-units", design_ref="DESIGN.md §19 'C04 contract notes'", technique="deductive verification (Verus/Z3) of exact step contracts on the extracted real store operations and replication handlers, plus a machine-checked two-run (replica) lemma by induction over line sequences",
        text="Per-step half plus an induction lemma, NOT the protocol-level theorem. Proved on the real code, for all states and arguments: Database::set_value, remove_value (and remove_key), inc_value "
             "each satisfy an EXACT step predicate (set_exact / remove_exact / inc_exact): outcome and resulting cell - text, version, dirty / persisted / removed state - are a function of the "
             "key's old cell and of the line's own fields (key, text, version; key; key and amount), of nothing else (no clock, no disk address, no other key), and no other key moves; without "
             "a conflict strategy set_key_value / apply_change_to_db_try_fix_conflicts add nothing to the store's write; the REAL handlers of `replicate`, `replicate-remove`, `replicate-increment` "
             "(dispatcher arms, closures lifted) run exactly that step on the database the line names and touch no other database; an accepted set / remove / increment leaves the node as "
             "exactly its own line and a refused one leaves nothing (replicate_request), the receiver's parsers read the fields the sender wrote, a peer's write is relayed unchanged, the "
             "fan-out hands the operation to exactly the other members / the secondaries, and a remove accepted away from the primary is forwarded to it. Lemmas (machine-checked): the "
             "same line applied to two databases that agree (same keys; same text, version and state per key) is answered alike and leaves them agreeing (lemma_replica_step), hence two "
             "nodes that agreed and applied the SAME sequence of lines in the same order agree after every prefix, for any number of lines (lemma_replicas_converge, induction). Bounded "
             "stand-in: families replica (a primary's lines fed in order to a secondary) and traffic (two nodes wired in process, one to three client commands on either node, exchange run "
             "to silence, then every key of every database compared: live keys, values, versions). TWO sweep clauses fail on the unchanged tree for writes accepted by a SECONDARY and are "
             "open known findings; one genuine defect (a remove accepted by a secondary never reached the primary) was repaired (58a84b1).",
        level_note="What the statement quantifies over - delivery orders, several processes, concurrent clients - is not decided; in-order delivery of the primary's lines is the lemma's HYPOTHESIS. "
                   "`newer` databases are outside the exact-step clauses (node-local op ids decide). Sequential semantics. The exact predicates pin the version arithmetic (e.g. an increment of "
                   "an absent key starts at version 1): a change of that arithmetic applied consistently on every node would still converge but fails the clause - it restates what C01 / C02 clauses "
                   "of the same functions already pin.",
    ),
    "C14": dict(
        engine="verus-units", design_ref="DESIGN.md §18 'C14 contract notes'", technique="deductive verification (Verus/Z3) of per-step traffic contracts on extracted real code (every line handed to another node's link counted on an explicit wire token), plus a machine-checked ranking lemma over those step bounds",
        text="Per handler step, for all states and member tables, on the real code: the role decision of the replication thread (extracted as a function, rule R10c) hands NOTHING to any "
             "link when this node is a secondary, at most one wrapped copy per member marked Secoundary (none to a member marked Primary / StartingUp, none to itself) when it is "
             "the primary, at most one per other member while it is starting up; replicate_message_to_all / replicate_message_to_secoundary / send_message_to_primary (real loops, "
             "invariants counting the lines against the number of target members visited) hand over exactly those lines and nothing else; the rp handler (real arm) hands exactly "
             "one acknowledgement `ack <id> <this node>` to the link the copy came over, first, and runs the wrapped command exactly once (ghost call history written by the "
             "callee's contract); the closures of set / increment forward nothing on the primary and at most one line per member marked Primary elsewhere; the handler of a "
             "relayed write (`replicate`) forwards nothing; replicate_request puts at most one line per command on the replication channel and none for an acknowledgement or "
             "a wrapper (unit outbox). Lemma (machine-checked): over ANY sequence of handler steps that respect those bounds the weight forwards*(2s+1) + 2*copies + acks of what "
             "is in flight strictly decreases, so a client operation accepted by the primary causes at most s copies and s acknowledgements, one accepted by a secondary at "
             "most one forward more, and with nothing in flight no step is possible - silence until the next client operation. TWO clauses fail on the unchanged tree and "
             "are open known findings, both reproduced on the real code by the bounded family traffic: on an arbiter database with an arbiter registered at a secondary, a "
             "conflicting client write is forwarded twice (conflict notice + the write), and a conflicting COPY arriving from the primary makes the secondary forward the "
             "conflict notice back to the primary.",
        level_note="The property itself is a statement about several nodes; what is decided here is its per-step half on one node plus the ranking argument over step COUNTS. That the "
                   "steps of a real cluster are instances of the lemma's step relation (one primary, consistent member tables, every handler covered) is not machine-checked. "
                   "set_key_value's forwarding behaviour is an assumed contract (by reading; see assumptions). Cluster-management commands (join, leave, elections, replicate-since) "
                   "are outside the clauses. Sequential semantics; the log counts send attempts.",
    ),
    "C19": dict(
        engine="verus-units", design_ref="DESIGN.md §5 C19", technique="deductive verification (Verus/Z3) of function contracts on extracted real code",
        text="Sequential half, for all states and versions: on a newer-strategy database set_key_value / apply_change_to_db_try_fix_conflicts / "
             "try_resolve_conflict_response never refuse a write (below i32::MAX), the reply names the value actually stored, the incoming value wins exactly when "
             "its op id is newer, the stored version never decreases and strictly grows when the value is replaced, watchers get exactly one record iff the "
             "stored value was replaced, and no other key is touched.",
        level_note="Two concurrent clients are NOT decided. The inner re-application goes through set_value's contract (modular). The `replicate` handler applies a peer's write through the same resolving operation on every node role (op_replicate_set); replica agreement over two processes is covered by the bounded family replica only."),
    "C15": dict(
        engine="verus-units", design_ref="DESIGN.md §5 C15", technique="deductive verification (Verus/Z3) of function contracts and a state invariant on extracted real code",
        text="Unbounded proof over all states: ReplicationMessage::{new,ack,replicated,is_full_acknowledged,get_copy} and "
             "Databases::{register_pending_opp,acknowledge_pending_opp,get_pending_opp_copy} keep the invariant 'replicate_count - ack_count == number of target nodes "
             "that have not acknowledged' and 'an operation is in the pending map exactly while some target node has not acknowledged'; acknowledgements count once per "
             "node, duplicates / unknown operations / foreign nodes change neither the counters nor which operations are pending. Because the invariant is "
             "required and re-established by every operation, it holds after every finite sequence of register/ack events (induction over the contracts).",
        level_note="Sequentialised atomics and mutex (R2/R3). Trusted: HashMap::get_mut specification, fetch_add as wrapping add, vstd HashMap/Set specs. The call-site condition of register_pending_opp is proved at its two call sites (the fan-out functions register an operation for exactly the members they hand it to); the ack handler's closure is verified. Assumed: an operation id is fanned out once. The rp handler and the replication thread's role dispatch are glue (bounded family logthread)."),
    "C10": dict(
        engine="verus-units", design_ref="DESIGN.md §5 C10", technique="deductive verification (Verus/Z3): absence of overflow / unwrap-on-None-or-Err / out-of-bounds in extracted real code, for all inputs",
        text="Partial but unbounded: every function under contract in the store, consensus, security, ids, oplog and pending units is proved free of arithmetic "
             "overflow, failed unwrap and out-of-bounds access with NO precondition on client-controlled values (versions, increments, keys, values, op ids), and "
             "31 of the 33 command parsers of parse_request.rs are proved to return Ok or Err for EVERY token stream (the token iterator is modelled as returning "
             "arbitrary tokens), so no parser can panic on any input line. A bounded native sweep sends ~1000 hostile command lines through process_request and "
             "probes the node from a second client afterwards.",
        level_note="Covers only the functions listed in the evidence. NOT decided: transport loops, the dispatcher's own unwraps, Request::parse's table lookup, "
                   "the two snapshot parsers, lock poisoning propagation, panics inside log:: arguments. str/String methods used by the parsers (replace, splitn, "
                   "parse, from_str_radix, format!) are trusted never to panic.",
    ),
}

NOT_APPLICABLE = {
    "C04": "Convergence quantifies over message delivery orders between 2-3 processes and over operations submitted to ANY node; no contract on one call can state it. The per-call facts it would be built from are decided where they belong (unit outbox: an accepted write leaves the node as exactly its own line, a refused one leaves nothing; unit pending: an operation is handed to exactly the other members; bounded family replica: a primary's lines applied in order on a secondary leave the same values - listed under C19 / C02 / C05), but the property itself - every node, every delivery order, forwarding from secondaries (the sweep even shows that a remove accepted by a secondary is never handed to the primary) - is a protocol-level statement outside this family.",
    "C11": "The statement quantifies over kill instants INSIDE the writes of a snapshot: the unit of durability is the flush of three independent 250-byte BufWriters, which cuts records at arbitrary byte boundaries, next to unbuffered in-place overwrites. A crash invariant at the granularity of whole file operations IS expressible with contracts (it is what unit oplogflag proves for C16), but here it would not be the property: between flushes the on-disk image is a byte-level interleaving no per-call contract of these functions describes, and by reading the current code does not keep the stated guarantee at that granularity (DESIGN section 10, observation b: an in-place key update can name a value record that is still in a buffer). Claiming it would mean a model of the OS write path, not contracts on this code.",
    "C14": "A bound on inter-node traffic followed by silence is a global ranking argument over the dispatcher and the replication loop on several nodes. Its per-call ingredients are proved elsewhere and listed there (unit outbox: a command puts at most one line on the replication channel and a refused one none; unit pending: the fan-out hands an operation to each other member once), but 'no self-sustaining exchange' relates the handlers of different nodes to each other and has no contract on one call.",
    "C18": "Both S3 strategies are async AWS-SDK network code inside a tokio runtime.",
}

# what later sessions put under contract, appended to the level texts above
TEXT_ADDENDA = {
    "C10": " The command an accepted `rp` wraps is never itself an `rp` (parse_rp_command), which bounds the handler's recursion at depth two - defects 22 / 23; hostile lines whose failure mode is an abort (nested wrappers, allocations of a client-chosen size) are run by the sweep in child processes.",
    "C20": " The published $connections value after the request is the counter after the decrement (Client::left, unit sessions).",
    "C03": " Delivery: the real try_send loops (notify_watchers, the removed-notification of remove_value) are verified over a per-channel model - every registration of the key is handed the changed / changed-version (resp. removed) line exactly once, a channel without a registration for the key nothing (unit delivery); selecting a database again ends no subscription (unit sessions); a write that wins a newer resolution is notified (unit consensus).",
    "C12": " The declutter step IS verified (unit rotation: the real remove_old_db_files over a directory token - with ten or more rotated files exactly the nine newest remain, in their order, with fewer nothing is deleted). Oplog::try_write_op_log: an accepted record is the last record of the live stream also when the write rolled the file over.",
    "C16": " The DISCARD step itself is verified (unit rotation: the real Oplog::clean_op_log_metadata_files over a directory token - afterwards the live oplog file, the flag file and every rotated `*.op` file are gone, nothing else is deleted). create_db keeps database identifiers distinct (unit ids).",
    "C15": " The two fan-out functions register an operation for exactly the members they hand it to (never this node itself), and the ack handler's closure is the accounting step whatever the node's role.",
    "C13": " Every registered arbiter is handed a notice once (real loop, unit delivery); a key in conflict survives a restart (loader, unit snapshot); the resolved value leaves the node as an ordinary write line (unit outbox). The notice of a first conflict names the version the key HOLDS (with op id, database, key, old and refused value), so that the resolution is stored above every version a client can have read before the conflict.",
    "C07": " Also: on every path of start_election some time is spent asleep between announcing the candidacy and claiming (explicit clock token), and the closures of set-primary / set-secoundary tag the link with the last announced member and role. `election alive` changes nothing on the node that receives it (ElectionActive arm).",
    "C02": " A refused set-safe leaves nothing on the replication channel (unit outbox); get-safe reports the stored version also for a tombstone.",
    "C08": " A refused login leaves the whole selection - database and user - unchanged (unit sessions); a refused command leaves nothing on the replication channel (unit outbox).",
    "C04": " Also under contract: db_ops::create_db (unit ids: a database is created by the primary or over the link tagged as the primary's, with the name, strategy and token the line carries; an existing name or any other sender is refused and changes nothing) and every line of replicate_request (snapshot / replicate-snapshot name the databases the command names, create-db carries name, token and strategy, create-user / set-permissions leave as writes of their keys).",
    "C09": " create-db is accepted only on the primary or over the primary's link (create_db, unit ids). The credentials checked are the tokens sent (parsers of auth / use-db, unit parser); a refused login leaves the session bound as before, an accepted user login binds exactly that user (unit sessions).",
    "C19": " A write received from a peer goes through the same resolving operation on every node role (op_replicate_set); a database restored without a metadata file gets the newer strategy (unit snapshot).",
    "C05": " The receiving side of `create-db` is verified (create_db, unit ids). The live emitter (replicate_request, get_replicate_message) and the receiving parser of `replicate` are under contract too: the layout `db key VERSION value` is what one writes and the other reads.",
    "C06": " The snapshot DRIVER is verified too (unit driver): a snapshot request for an existing database is queued with its mode and answered Ok, one for an unknown database is refused; snapshot_all_pendding_dbs (real while-let loop, invariant) saves the key map first and then takes exactly the requested snapshots - one per request, each database in its own mode, vanished databases skipped - and leaves the queue empty.",
    "C01": " process_request hands the parser the received line minus only its line feeds (unit outbox).",
    "C17": " An HTTP request's session is released when the request ends, whatever its commands answered (process_commands, unit http). A database built from loaded data counts no session (create_db_from_value_hash, body verified); the value published under $connections is an explicit token written only from the counter as it is at that call: Client::left and release_previous_db publish the counter AFTER it moved.",
}
