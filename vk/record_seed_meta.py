#!/usr/bin/env python3
"""developer helper: record in seeded/<id>/meta.json (a) my own confirmation of the seed (from a vk/confirm_seed.sh log) and (b) what the property's check reported on first contact
   usage: record_seed_meta.py <confirm-log> <first-contact|now> <seed names...>"""
import json, os, re, sys
V = os.path.dirname(os.path.dirname(os.path.abspath(__file__)))
log, mode, names = sys.argv[1], sys.argv[2], sys.argv[3:]
blocks = {}
if os.path.exists(log):
    cur = None
    for ln in open(log, errors="replace"):
        m = re.match(r"=== (?:seeded/)?(\S+)", ln)
        if m: cur = os.path.basename(m.group(1)); blocks[cur] = []; continue
        if cur and (ln.startswith("test result") or "seeded_demo" in ln or ln.startswith("---")): blocks[cur].append(ln.strip())
res = json.load(open(os.path.join(V, "seeded", "RESULTS.json")))
for n in names:
    f = os.path.join(V, "seeded", n, "meta.json"); m = json.load(open(f))
    if n in blocks and "confirmed_by_verifier_author" not in m:
        b = blocks[n]
        ok = any("148 passed" in x for x in b) and any(x.endswith("FAILED") for x in b) and any(x.endswith("ok") for x in b)
        m["confirmed_by_verifier_author"] = dict(how="vk/confirm_seed.sh in a scratch worktree of /repo HEAD (removed afterwards), private cargo target dir", outcome=b,
            verdict=("148 baseline tests pass with the patch (the 5 storage::s3* tests need the network and fail with and without it); the demo test FAILS with the patch and PASSES without it" if ok else "NOT CONFIRMED"))
    r = res.get(n)
    if r:
        cr = m.setdefault("check_result", dict(cmd="vk/run_seeds.py: patch applied to a scratch worktree, ./check %s against it (VERIF_REPO), worktree reset" % m["property"]))
        if mode == "first-contact" and "first_contact_exit" not in cr:
            cr["first_contact_exit"] = r.get("exit"); cr["first_contact"] = "caught" if r.get("exit") == 1 else ("undecided (exit 2)" if r.get("exit") == 2 else "missed")
            cr["first_contact_output"] = r.get("output")
        cr["exit"] = r.get("exit"); cr["output"] = r.get("output")
    json.dump(m, open(f, "w"), indent=1)
    print(n, m.get("confirmed_by_verifier_author", {}).get("verdict", "")[:20], m.get("check_result", {}).get("first_contact"))
