use nundb::bo::*;
use nundb::db_ops::*;
use futures::channel::mpsc::{channel, Receiver, Sender};
use std::collections::HashMap;
use std::sync::Arc;
fn dbs() -> Arc<Databases> {
    let (s1, _r1): (Sender<String>, Receiver<String>) = channel(100);
    let (s2, _r2): (Sender<String>, Receiver<String>) = channel(100);
    std::mem::forget(_r1); std::mem::forget(_r2);
    let d = Arc::new(Databases::new("u".into(), "p".into(), "".into(), "".into(), s1, s2, HashMap::new(), 1, true));
    d.node_state.swap(ClusterRole::Primary as usize, std::sync::atomic::Ordering::Relaxed);
    d
}
fn main() {
    let dbs = dbs();
    let db = Database::new("d".into(), DatabaseMataData::new(1, ConsensuStrategy::Arbiter));
    let (client, _rx) = Client::new_empty_and_receiver();
    db.register_arbiter(&client);
    println!("{:?}", set_key_value("k".into(), "a".into(), -1, &db, &dbs));
    println!("{:?}", set_key_value("k".into(), "b".into(), 5, &db, &dbs));
    println!("{:?}", set_key_value("k".into(), "c".into(), 1, &db, &dbs)); // conflict
    let keys = db.list_keys(&"$conflicts".to_string(), true);
    println!("conflict keys {:?}  k={:?}", keys, db.get_value("k".into()));
    for k in keys { println!("remove {} -> {:?}", k, remove_key(&k, &db)); }
    println!("now a second conflicting write:");
    let r = std::panic::catch_unwind(std::panic::AssertUnwindSafe(|| set_key_value("k".into(), "d".into(), 1, &db, &dbs)));
    println!("{:?}", r.map_err(|_| "PANIC"));
}
