use nundb::bo::*;
fn main() {
    let db = Database::new(String::from("d"), DatabaseMataData::new(1, ConsensuStrategy::None));
    db.set_value(&Change::new("k".into(), "5".into(), -1));
    db.set_value(&Change::new("k".into(), "6".into(), -1));
    println!("before inc: {:?}", db.get_value("k".into()));
    let r = db.inc_value("k".into(), 1);
    println!("inc -> {:?}; after: {:?}", r, db.get_value("k".into()));
}
