use nundb::bo::*;
use nundb::db_ops::*;
use futures::channel::mpsc::{channel, Receiver, Sender};
use std::collections::HashMap;
use std::sync::Arc;
fn dbs() -> Arc<Databases> {
    let (s1, _r1): (Sender<String>, Receiver<String>) = channel(100);
    let (s2, _r2): (Sender<String>, Receiver<String>) = channel(100);
    std::mem::forget(_r1); std::mem::forget(_r2);
    let d = Arc::new(Databases::new("u".into(), "p".into(), "".into(), "".into(), s1, s2, HashMap::new(), 1, true));
    d.node_state.swap(ClusterRole::Primary as usize, std::sync::atomic::Ordering::Relaxed);
    d
}
fn main() {
    let dbs = dbs();
    // what a restart leaves when only `b` (id 2) had been snapshotted: $admin:0, b:2
    dbs.add_database(Database::new("b".into(), DatabaseMataData::new(2, ConsensuStrategy::None)));
    let (client, _rx) = Client::new_empty_and_receiver();
    println!("{:?}", create_db(&"c".to_string(), &"tok".to_string(), &dbs, &client, ConsensuStrategy::None));
    let m = dbs.map.read().unwrap();
    for (n, d) in m.iter() { println!("{} -> id {}", n, d.metadata.id); }
    println!("id_name_db_map: {:?}", dbs.id_name_db_map.read().unwrap());
}
