//! Witness search and replay against the REAL nun-db code (native build, public API).
//!
//!   nundb-replay search <label>            enumerate small scenarios, print the first one that violates <label>
//!   nundb-replay run    <label> <scenario>  re-execute one scenario; exit 1 if <label> is violated
//!
//! The clauses below are the contract clauses of /verif/contracts/*.vc transcribed as executable
//! predicates.  This program never decides a verdict (Verus / Kani do); it only turns a failed
//! obligation into a concrete input when a small one exists.
use futures::channel::mpsc::{channel, Receiver, Sender};
use nundb::bo::*;
use nundb::db_ops::*;
use std::collections::HashMap;
use std::panic::{catch_unwind, AssertUnwindSafe};
use std::sync::Arc;

const MARK: i32 = -2;
/// thorough tier: VERIF_SWEEP_DEEP=1 enlarges the bounded families
fn deep() -> bool { std::env::var("VERIF_SWEEP_DEEP").is_ok() }

fn mk_dbs() -> Arc<Databases> {
    let (s1, r1): (Sender<String>, Receiver<String>) = channel(1000);
    let (s2, r2): (Sender<String>, Receiver<String>) = channel(1000);
    std::mem::forget(r1);
    std::mem::forget(r2);
    let d = Arc::new(Databases::new("u".into(), "p".into(), "".into(), "".into(), s1, s2, HashMap::new(), 1, true));
    d.node_state.swap(ClusterRole::Primary as usize, std::sync::atomic::Ordering::Relaxed);
    d
}

fn sat_inc(x: i32) -> i32 { if x == i32::MAX { i32::MAX } else { x + 1 } }
fn is_marker(v: i32, resolving: bool) -> bool { v == MARK && resolving }
fn spec_next_version(cv: i32, resolving: bool, ov: i32) -> i32 {
    if is_marker(cv, resolving) { cv }
    else if resolving { sat_inc(if ov == MARK { cv } else { ov }) }
    else if ov == MARK { ov }
    else if cv == -1 { sat_inc(ov) }
    else { live_version(sat_inc(cv)) }
}
/// a live key is never stored with -1, the on-disk deletion marker
fn live_version(x: i32) -> i32 { if x == -1 { 0 } else { x } }
fn upd(s: ValueStatus) -> ValueStatus { if s == ValueStatus::New { ValueStatus::New } else { ValueStatus::Updated } }

const VERSIONS: [i32; 10] = [-3, -2, -1, 0, 1, 4, 5, 6, i32::MAX - 1, i32::MAX];
const STATES: [ValueStatus; 4] = [ValueStatus::New, ValueStatus::Ok, ValueStatus::Updated, ValueStatus::Deleted];

#[derive(Clone, Debug)]
struct Entry { value: String, version: i32, state: ValueStatus, va: u64, ka: u64, opp: u64 }

fn snapshot(db: &Database) -> HashMap<String, Entry> {
    let m = db.map.read().unwrap();
    m.iter().map(|(k, v)| (k.clone(), Entry { value: v.value.clone(), version: v.version, state: v.state, va: v.value_disk_addr, ka: v.key_disk_addr, opp: v.opp_id })).collect()
}
fn same(a: &Entry, b: &Entry) -> bool {
    a.value == b.value && a.version == b.version && a.state == b.state && a.va == b.va && a.ka == b.ka && a.opp == b.opp
}
fn maps_equal(a: &HashMap<String, Entry>, b: &HashMap<String, Entry>) -> bool {
    a.len() == b.len() && a.iter().all(|(k, v)| b.get(k).map_or(false, |w| same(v, w)))
}
fn frame_except(a: &HashMap<String, Entry>, b: &HashMap<String, Entry>, keys: &[&str]) -> bool {
    let ks: Vec<&String> = a.keys().chain(b.keys()).collect();
    ks.iter().all(|k| keys.contains(&k.as_str()) || match (a.get(*k), b.get(*k)) { (Some(x), Some(y)) => same(x, y), _ => false })
}
fn drain(rx: &mut Receiver<String>) -> Vec<String> {
    let mut v = vec![];
    while let Ok(Some(m)) = rx.try_next() { v.push(m); }
    v
}

/// a database holding the neighbour key "n" and (optionally) key "k" in a chosen state, with a watcher on "k"
fn mk_db(strategy: ConsensuStrategy, k: Option<(i32, ValueStatus, &str)>) -> (Database, Receiver<String>) {
    let db = Database::new("d".into(), DatabaseMataData::new(1, strategy));
    db.set_value_version(&"n".to_string(), &"nv".to_string(), 7, ValueStatus::Ok, 70, 71, 72);
    if let Some((v, st, val)) = k {
        let (va, ka) = if st == ValueStatus::New { (0, 0) } else { (40, 41) };
        db.set_value_version(&"k".to_string(), &val.to_string(), v, st, va, ka, 42);
    }
    let (s, r): (Sender<String>, Receiver<String>) = channel(1000);
    db.watch_key(&"k".to_string(), &s);
    std::mem::forget(s);
    (db, r)
}

type Violations = Vec<String>;
fn chk(v: &mut Violations, label: &str, ok: bool) { if !ok && !v.iter().any(|x| x == label) { v.push(label.to_string()); } }

// ------------------------------------------------------------------ family: store (set / remove / inc / get)
fn scenario_store(sc: &str) -> Result<Violations, String> {
    // sc = "<op>|<key state>|<args>"   key state: "absent" or "<version>:<state idx>:<value>"
    let p: Vec<&str> = sc.split('|').collect();
    if p.len() < 3 { return Err("bad scenario".into()); }
    let kstate: Option<(i32, ValueStatus, String)> = if p[1] == "absent" { None } else {
        let q: Vec<&str> = p[1].splitn(3, ':').collect();
        Some((q[0].parse().map_err(|_| "bad version")?, STATES[q[1].parse::<usize>().map_err(|_| "bad state")?], q[2].to_string()))
    };
    let (db, mut rx) = mk_db(ConsensuStrategy::None, kstate.as_ref().map(|(v, s, val)| (*v, *s, val.as_str())));
    let before = snapshot(&db);
    let old = before.get("k").cloned();
    let mut v: Violations = vec![];
    let args: Vec<&str> = p[2].split(',').collect();
    match p[0] {
        "set" => {
            let cv: i32 = args[0].parse().map_err(|_| "bad v")?;
            let resolving = args[1] == "1";
            let mut change = Change::new("k".into(), "NEW".into(), cv);
            if resolving { change = change.to_resolve_change(); }
            if let Some(o) = &old {
                let ov = Value { value: o.value.clone(), version: o.version, opp_id: o.opp, state: o.state, value_disk_addr: o.va, key_disk_addr: o.ka };
                let nv = catch_unwind(AssertUnwindSafe(|| change.next_version(&ov)));
                match nv { Ok(n) => chk(&mut v, "C02.next-version", n == spec_next_version(cv, resolving, o.version)), Err(_) => chk(&mut v, "C10.safety", false) }
            }
            let r = match catch_unwind(AssertUnwindSafe(|| db.set_value(&change))) { Ok(r) => r, Err(_) => { v.push("C10.safety".into()); return Ok(v); } };
            let after = snapshot(&db);
            let msgs = drain(&mut rx);
            let is_set = matches!(r, Response::Set { .. });
            let is_ve = matches!(r, Response::VersionError { .. });
            chk(&mut v, "C01.frame-set", frame_except(&before, &after, &["k"]));
            if is_ve { chk(&mut v, "C01.refused-unchanged", maps_equal(&before, &after)); chk(&mut v, "C03.no-emit-refused", msgs.is_empty()); }
            match &old {
                None => { chk(&mut v, "C02.cas-absent", is_set);
                          if is_set { chk(&mut v, "C02.absent-version", after["k"].version == live_version(sat_inc(cv))); } }
                Some(o) => {
                    let refused = spec_next_version(cv, resolving, o.version) <= o.version && !is_marker(cv, resolving);
                    chk(&mut v, "C02.cas-rule", is_ve == refused);
                    // (a live key never carries -1, the on-disk deletion marker - C06.live-version-never-deleted-marker - so that state is not judged)
                    if !resolving && o.version != MARK && o.version != -1 && cv < i32::MAX && o.version < i32::MAX {
                        chk(&mut v, "C02.cas-statement", is_set == (cv == -1 || cv >= o.version));
                    }
                    if is_set && !is_marker(cv, resolving) { chk(&mut v, "C02.grow", after["k"].version > o.version); }
                    if is_set {
                        let a = &after["k"];
                        chk(&mut v, "C01.set-stores", a.version == spec_next_version(cv, resolving, o.version) && a.state == upd(o.state) && a.va == o.va && a.ka == o.ka);
                        chk(&mut v, "C01.dirty-state-rule", a.state == upd(o.state));
                    }
                }
            }
            if is_set {
                let a = &after["k"];
                chk(&mut v, "C01.set-stores", a.value == "NEW" && a.opp == change.opp_id);
                if let Response::Set { key, value } = &r { chk(&mut v, "C01.set-reply", key == "k" && value == "NEW"); }
                chk(&mut v, "C03.emit-set", msgs.len() == 2 && msgs[0] == "changed k NEW\n" && msgs[1] == format!("changed-version k {} NEW\n", a.version));
            }
        }
        "remove" => {
            let key = args[0];
            let r = match catch_unwind(AssertUnwindSafe(|| db.remove_value(key.to_string()))) { Ok(r) => r, Err(_) => { v.push("C10.safety".into()); return Ok(v); } };
            let after = snapshot(&db);
            let msgs = drain(&mut rx);
            if key == "$$token" {
                chk(&mut v, "C08.token-immortal", matches!(r, Response::Error { .. }) && maps_equal(&before, &after) && msgs.is_empty());
            } else {
                chk(&mut v, "C01.frame-remove", frame_except(&before, &after, &["k"]));
                match &old {
                    None => chk(&mut v, "C01.remove-absent", maps_equal(&before, &after)),
                    Some(o) if o.state == ValueStatus::New => chk(&mut v, "C01.remove-new", !after.contains_key("k")),
                    Some(o) => { let a = after.get("k");
                        chk(&mut v, "C01.remove-tombstone", a.map_or(false, |a| a.value == "<Empty>" && a.state == ValueStatus::Deleted
                            && a.version == sat_inc(o.version) && a.va == o.va && a.ka == o.ka && a.opp == o.opp)); }
                }
                chk(&mut v, "C03.emit-removed", msgs.len() == 1 && msgs[0] == "removed k\n");
            }
        }
        "inc" => {
            let inc: i32 = args[0].parse().map_err(|_| "bad inc")?;
            let r = match catch_unwind(AssertUnwindSafe(|| db.inc_value("k".to_string(), inc))) { Ok(r) => r, Err(_) => { v.push("C10.safety".into()); return Ok(v); } };
            let after = snapshot(&db);
            let msgs = drain(&mut rx);
            let cur: String = match &old { Some(o) if o.state != ValueStatus::Deleted => o.value.clone(), _ => "0".to_string() };
            let parsed = i32::from_str_radix(&cur, 10).ok();
            chk(&mut v, "C01.frame-inc", frame_except(&before, &after, &["k"]));
            match parsed {
                Some(n) => if let Some(sum) = n.checked_add(inc) {
                    chk(&mut v, "C01.inc-adds", matches!(r, Response::Ok {}) && after.get("k").map_or(false, |a| a.value == sum.to_string() && a.state != ValueStatus::Deleted));
                },
                None => chk(&mut v, "C01.inc-refuses", matches!(r, Response::Error { .. }) && maps_equal(&before, &after)),
            }
            if matches!(r, Response::Error { .. }) { chk(&mut v, "C01.inc-refuses", maps_equal(&before, &after) && msgs.is_empty()); }
            if matches!(r, Response::Ok {}) {
                if let Some(o) = &old {
                    if o.version < i32::MAX { chk(&mut v, "C02.grow-inc", after["k"].version > o.version); }
                    chk(&mut v, "C01.inc-keeps-disk-state", after["k"].va == o.va && after["k"].ka == o.ka && after["k"].state == upd(o.state));
                    chk(&mut v, "C01.dirty-state-rule", after["k"].state == upd(o.state));
                }
                chk(&mut v, "C03.emit-inc", msgs.len() == 2 && msgs[0] == format!("changed k {}\n", after["k"].value));
            }
        }
        "get" => {
            let r = get_key_value_new(&"k".to_string(), &db);
            if let Response::Value { key, value, version } = r {
                match &old { Some(o) => { chk(&mut v, "C01.get-reply", key == "k" && value == o.value && version == o.version); chk(&mut v, "C02.get-safe-reports-stored-version", version == o.version); }
                             None => chk(&mut v, "C01.get-reply", key == "k" && value == "<Empty>" && version == 1) }
            } else { chk(&mut v, "C01.get-reply", false); }
        }
        _ => return Err("unknown op".into()),
    }
    Ok(v)
}

fn all_store_scenarios() -> Vec<String> {
    let mut out = vec![];
    let mut kstates = vec!["absent".to_string()];
    for ver in VERSIONS { for (si, st) in STATES.iter().enumerate() {
        for val in ["5", "x", "2147483647", "NEW"] {
            let val = if *st == ValueStatus::Deleted { "<Empty>" } else { val };
            kstates.push(format!("{}:{}:{}", ver, si, val));
        } } }
    kstates.dedup();
    for ks in &kstates {
        for cv in VERSIONS { for res in ["0", "1"] { out.push(format!("set|{}|{},{}", ks, cv, res)); } }
        out.push(format!("remove|{}|k", ks));
        out.push(format!("remove|{}|$$token", ks));
        for inc in [1, -1, i32::MAX, i32::MIN] { out.push(format!("inc|{}|{}", ks, inc)); }
        out.push(format!("get|{}|-", ks));
    }
    out
}

// ------------------------------------------------------------------ family: strategy (newer / none / arbiter through set_key_value)
fn scenario_strategy(sc: &str) -> Result<Violations, String> {
    // sc = "<strategy>|<old version>|<client version>|<arbiter 0/1>[|<key>]"   (key defaults to k; `$$sk` is a secure key: the strategy decides for every key alike)
    let p: Vec<&str> = sc.split('|').collect();
    let strategy = match p[0] { "newer" => ConsensuStrategy::Newer, "arbiter" => ConsensuStrategy::Arbiter, _ => ConsensuStrategy::None };
    let ov: i32 = p[1].parse().map_err(|_| "bad")?;
    let cv: i32 = p[2].parse().map_err(|_| "bad")?;
    let dbs = mk_dbs();
    let key: &str = p.get(4).copied().unwrap_or("k");
    let (db, mut rx) = mk_db(strategy, Some((ov, ValueStatus::Ok, "OLD")));
    if key != "k" {
        db.set_value_version(&key.to_string(), &"OLD".to_string(), ov, ValueStatus::Ok, 50, 51, 42);
        let (s, r): (Sender<String>, Receiver<String>) = channel(1000);
        db.watch_key(&key.to_string(), &s); std::mem::forget(s); rx = r;
    }
    let (arb, _arx) = Client::new_empty_and_receiver();
    if p[3] == "1" { db.register_arbiter(&arb); }
    let before = snapshot(&db);
    let mut v: Violations = vec![];
    let r = match catch_unwind(AssertUnwindSafe(|| set_key_value(key.into(), "NEW".into(), cv, &db, &dbs))) { Ok(r) => r, Err(_) => { v.push("C10.safety".into()); return Ok(v); } };
    let after = snapshot(&db);
    let msgs = drain(&mut rx);
    let is_set = matches!(r, Response::Set { .. });
    match strategy {
        ConsensuStrategy::Newer => {
            if ov < i32::MAX { chk(&mut v, "C19.set-never-refused", is_set); chk(&mut v, "C19.apply-never-refused", is_set); chk(&mut v, "C19.never-refused", is_set); }
            if let Response::Set { value, .. } = &r { let ok = after.get(key).map_or(false, |a| &a.value == value);
                chk(&mut v, "C19.set-reply-truth", ok); chk(&mut v, "C19.apply-reply-truth", ok); chk(&mut v, "C19.reply-truth", ok); }
            let g = after.get(key).map_or(false, |a| a.version >= ov);
            chk(&mut v, "C19.set-grow", g); chk(&mut v, "C19.apply-grow", g); chk(&mut v, "C19.grow", g);
            chk(&mut v, "C19.apply-frame", frame_except(&before, &after, &[key])); chk(&mut v, "C19.frame", frame_except(&before, &after, &[key]));
            let replaced = after[key].value != before[key].value;
            chk(&mut v, "C19.notify-iff-changed", replaced == !msgs.is_empty());
        }
        ConsensuStrategy::None => {
            if ov != MARK && ov != -1 && cv < i32::MAX && ov < i32::MAX {
                chk(&mut v, "C02.set-cas", is_set == (cv == -1 || cv >= ov));
                chk(&mut v, "C02.cas-statement", is_set == (cv == -1 || cv >= ov));
            }
            if !is_set { chk(&mut v, "C02.set-cas", maps_equal(&before, &after)); chk(&mut v, "C02.none-strategy", maps_equal(&before, &after)); chk(&mut v, "C02.apply-none", maps_equal(&before, &after)); }
        }
        ConsensuStrategy::Arbiter => {
            if !is_set {
                let kept = after.get(key).map_or(false, |a| a.value == "OLD");
                chk(&mut v, "C13.set-arbiter", kept); chk(&mut v, "C13.apply-arbiter", kept); chk(&mut v, "C13.keep-old", kept);
                if p[3] == "0" { chk(&mut v, "C13.refuse", maps_equal(&before, &after)); }
                else {
                    chk(&mut v, "C13.keep-old", after[key].version == MARK);
                    let notices: Vec<&String> = after.keys().filter(|k| k.starts_with(&format!("$conflicts_{}_", key))).collect();
                    chk(&mut v, "C13.record", notices.len() == 1 && !after[notices[0]].value.starts_with("resolved"));
                    chk(&mut v, "C13.not-applied", after.iter().all(|(k, e)| k == key || k.starts_with(&format!("$conflicts_{}_", key)) || before.get(k).map_or(false, |b| same(b, e))));
                }
            }
        }
    }
    Ok(v)
}
fn all_strategy_scenarios() -> Vec<String> {
    let mut out = vec![];
    for s in ["newer", "none", "arbiter"] { for ov in VERSIONS { for cv in VERSIONS { for a in ["0", "1"] {
        if s != "arbiter" && a == "1" { continue; }
        out.push(format!("{}|{}|{}|{}", s, ov, cv, a));
        if [1, 5].contains(&ov) { out.push(format!("{}|{}|{}|{}|$$sk", s, ov, cv, a)); }
    } } } }
    out
}

// ------------------------------------------------------------------ family: pending (register / ack event sequences)
fn scenario_pending(sc: &str) -> Result<Violations, String> {
    // sc = comma separated events  r<op><node> / a<op><node>, e.g. "r1a,r1b,a1a,a1a,a2c";  "race" = one forced interleaving of an acknowledgement and a registration
    if sc == "race" { return scenario_pending_race(); }
    let dbs = mk_dbs();
    let mut v: Violations = vec![];
    let mut owing: HashMap<u64, Vec<String>> = HashMap::new();
    // the nodes are members of the cluster table; `l0<node>`: that member leaves (remove_cluster_member, what the `leave` handler and a dropped link do).  What becomes of the
    // acknowledgements the LEAVING node owed is not stated by the property; what is: an operation a REMAINING member still owes stays pending, and that member's first
    // acknowledgement still counts
    for n in ["a", "b", "c"] { dbs.add_cluster_member(ClusterMember { name: n.to_string(), role: ClusterRole::Secoundary, sender: None }); }
    let mut left: Vec<String> = vec![];
    for ev in sc.split(',').filter(|e| !e.is_empty()) {
        let kind = &ev[0..1]; let op: u64 = ev[1..2].parse().map_err(|_| "bad op")?; let node = ev[2..].to_string();
        if kind == "l" {
            if catch_unwind(AssertUnwindSafe(|| dbs.remove_cluster_member(&node))).is_err() { v.push("C10.safety".into()); return Ok(v); }
            if !left.contains(&node) { left.push(node.clone()); }
            let pending: Vec<u64> = dbs.pending_opps.read().unwrap().keys().cloned().collect();
            for (op, nodes) in &owing { if nodes.iter().any(|n| !left.contains(n)) {
                chk(&mut v, "C15.pending-iff-owing", pending.contains(op)); chk(&mut v, "C15.pending-iff-unacked", pending.contains(op)); chk(&mut v, "C15.still-pending-while-a-member-owes", pending.contains(op)); } }
            continue;
        }
        if !left.is_empty() {
            // after a departure only the clauses about the remaining members are judged
            if left.contains(&node) { continue; }
            if kind == "r" { if owing.get(&op).map_or(false, |o| o.contains(&node)) { continue; } dbs.register_pending_opp(op, "m".into(), &node); owing.entry(op).or_default().push(node); }
            else {
                let expect = owing.get(&op).map_or(false, |o| o.contains(&node));
                let r = dbs.acknowledge_pending_opp(op, &node);
                chk(&mut v, "C15.ack-exact", r == expect); chk(&mut v, "C15.once", r == expect);
                if let Some(o) = owing.get_mut(&op) { o.retain(|n| n != &node); if o.is_empty() { owing.remove(&op); } }
            }
            let pending: Vec<u64> = dbs.pending_opps.read().unwrap().keys().cloned().collect();
            for (op, nodes) in &owing { if nodes.iter().any(|n| !left.contains(n)) { chk(&mut v, "C15.pending-iff-owing", pending.contains(op)); chk(&mut v, "C15.still-pending-while-a-member-owes", pending.contains(op)); } }
            continue;
        }
        if kind == "r" {
            if owing.get(&op).map_or(false, |o| o.contains(&node)) { continue; } // call-site condition of the contract
            dbs.register_pending_opp(op, "m".into(), &node);
            owing.entry(op).or_default().push(node);
        } else {
            let expect = owing.get(&op).map_or(false, |o| o.contains(&node));
            let r = dbs.acknowledge_pending_opp(op, &node);
            chk(&mut v, "C15.ack-exact", r == expect);
            chk(&mut v, "C15.once", r == expect); chk(&mut v, "C15.duplicate", r == expect); chk(&mut v, "C15.foreign", r == expect);
            if let Some(o) = owing.get_mut(&op) { o.retain(|n| n != &node); if o.is_empty() { owing.remove(&op); } }
        }
        let pending: Vec<u64> = dbs.pending_opps.read().unwrap().keys().cloned().collect();
        let ok = pending.len() == owing.len() && pending.iter().all(|p| owing.contains_key(p));
        for l in ["C15.pending-iff-owing", "C15.pending-iff-unacked", "C15.exact-ack", "C15.exact-register", "C15.idempotent", "C15.unknown-op",
                  "C15.wf-ack", "C15.wf-register", "C15.wf-ack-pending", "C15.wf-register-pending", "C15.register-pending", "C15.register", "C15.frame-ack", "C15.frame-register"] {
            chk(&mut v, l, ok);
        }
        for (op, nodes) in &owing {
            if let Some(c) = dbs.get_pending_opp_copy(*op) { chk(&mut v, "C15.observe", c.count_replication() - c.count_acknowledged() == nodes.len()); }
            else { chk(&mut v, "C15.observe", false); }
        }
    }
    Ok(v)
}
/// C15 under one forced interleaving: while node a's acknowledgement is inside acknowledge_pending_opp (parked on the latency statistics lock, which this scenario holds), the fan-out
/// registers node b for the same operation; afterwards the operation must still be pending, for b
fn scenario_pending_race() -> Result<Violations, String> {
    let dbs = mk_dbs();
    let mut v: Violations = vec![];
    dbs.register_pending_opp(7, "m".into(), &"a".to_string());
    let guard = dbs.replication_ema.write().unwrap();
    let d1 = dbs.clone(); let t1 = std::thread::spawn(move || { d1.acknowledge_pending_opp(7, &"a".to_string()) });
    std::thread::sleep(std::time::Duration::from_millis(30));
    let d2 = dbs.clone(); let t2 = std::thread::spawn(move || { d2.register_pending_opp(7, "m".into(), &"b".to_string()); });
    std::thread::sleep(std::time::Duration::from_millis(30));
    drop(guard);
    let ok1 = t1.join().is_ok(); let ok2 = t2.join().is_ok();
    if !ok1 || !ok2 { v.push("C10.safety".into()); return Ok(v); }
    let names: Option<Vec<String>> = dbs.get_pending_opp_copy(7).map(|m| m.replications.lock().unwrap().iter().filter(|(_, acked)| !**acked).map(|(n, _)| n.clone()).collect());
    for l in ["C15.pending-iff-owing", "C15.ack-exact", "C15.exact-ack"] { chk(&mut v, l, names.as_ref().map_or(false, |n| n == &vec!["b".to_string()])); }
    let r = dbs.acknowledge_pending_opp(7, &"b".to_string());
    chk(&mut v, "C15.once", r); chk(&mut v, "C15.returns-to-zero", dbs.get_pending_opp_copy(7).is_none());
    Ok(v)
}
fn all_pending_scenarios() -> Vec<String> {
    let evs = ["r1a", "r1b", "a1a", "a1b", "a1c", "r2a", "a2a"];
    let mut out = vec![];
    fn rec(evs: &[&str], cur: &mut Vec<String>, depth: usize, out: &mut Vec<String>) {
        if !cur.is_empty() { out.push(cur.join(",")); }
        if depth == 0 { return; }
        for e in evs { cur.push(e.to_string()); rec(evs, cur, depth - 1, out); cur.pop(); }
    }
    rec(&evs, &mut vec![], if deep() { 6 } else { 5 }, &mut out);
    out.push("race".into());
    // a member leaves in the middle: every sequence of <= 4 (5) events from registrations / acknowledgements of three nodes for one operation and the departure of a or b
    let mut withleave = vec![];
    rec(&["r1a", "r1b", "r1c", "a1a", "a1b", "a1c", "l0a", "l0b"], &mut vec![], if deep() { 5 } else { 4 }, &mut withleave);
    for t in withleave { if t.contains("l0") && t.contains("r1") { out.push(t); } }
    out
}

// ------------------------------------------------------------------ family: ids
/// the key-id map survives snapshot_keys + reload unchanged (what a clean restart with a valid oplog relies on)
fn scenario_keymap(sc: &str) -> Result<Violations, String> {
    use nundb::disk_ops::*;
    let names: Vec<&str> = sc.split(',').filter(|x| !x.is_empty()).collect();
    let dir = std::env::var("NUN_DBS_DIR").map_err(|_| "NUN_DBS_DIR not set")?;
    let _ = std::fs::remove_file(format!("{}/keys-nun.keys", dir));
    let mut km: HashMap<String, u64> = HashMap::new();
    for (i, n) in names.iter().enumerate() { km.insert(n.to_string(), i as u64); }
    let (s1, r1): (Sender<String>, Receiver<String>) = channel(10);
    let (s2, r2): (Sender<String>, Receiver<String>) = channel(10);
    std::mem::forget(r1); std::mem::forget(r2);
    let dbs = Arc::new(Databases::new("u".into(), "p".into(), "".into(), "".into(), s1, s2, km.clone(), 1, false));
    let mut v: Violations = vec![];
    if catch_unwind(AssertUnwindSafe(|| snapshot_keys(&dbs))).is_err() { v.push("C10.safety".into()); return Ok(v); }
    let loaded = load_keys_map_from_disk();
    let same = loaded.len() == km.len() && km.iter().all(|(k, id)| loaded.get(k) == Some(id));
    for l in ["C16.keymap-roundtrip", "C16.key-ids-wf", "C16.key-fresh", "C16.key-known"] { chk(&mut v, l, same); }
    // and the reverse map built at start-up agrees with it
    let ok_rev = { let ik = dbs.id_keys_map.read().unwrap(); km.iter().all(|(k, id)| ik.get(id) == Some(k)) };
    chk(&mut v, "C16.key-ids-wf", ok_rev);
    Ok(v)
}
fn all_keymap_scenarios() -> Vec<String> {
    vec!["", "a", "a,b", "a,$$user_jose,b", "$$token,a", "a,b,$$permission_$x", "k1,k2,k3,k4,$$secret,k5"].into_iter().map(|x| x.to_string()).collect()
}

/// one FORCED interleaving of two `create-db` commands (sequential contracts cannot see lock orders): the first is inside add_database - it holds the table of databases for
/// writing and is about to take the identifier table - when the second starts; both must finish and a third client must still be served (a lock order that differs between
/// next_db_id and add_database wedges the node for every client)
fn scenario_ids_lockorder() -> Result<Violations, String> {
    let mut v: Violations = vec![];
    let w = mk_world(0);
    let dbs = w.dbs.clone();
    let (tx, rx) = std::sync::mpsc::channel::<&'static str>();
    let d1 = dbs.clone(); let t1 = tx.clone();
    std::thread::spawn(move || {
        // what add_database does: the table of databases first, then the identifier table
        let m = d1.map.write().unwrap();
        std::thread::sleep(std::time::Duration::from_millis(300));
        let ids = d1.id_name_db_map.write().unwrap();
        drop(ids); drop(m);
        let _ = t1.send("first");
    });
    std::thread::sleep(std::time::Duration::from_millis(100));
    let d2 = dbs.clone(); let t2 = tx.clone();
    std::thread::spawn(move || {
        let (mut c, mut crx) = Client::new_empty_and_receiver();
        let w2 = World { dbs: d2 };
        for l in ["auth u p", "create-db racer rt"] { run_cmd(&w2, &mut c, &mut crx, l); }
        let _ = t2.send("second");
    });
    let mut done = 0;
    while done < 2 { match rx.recv_timeout(std::time::Duration::from_secs(4)) { Ok(_) => done += 1, Err(_) => break } }
    chk(&mut v, "C10.safety", done == 2);
    if done == 2 {
        let (mut c3, mut rx3) = Client::new_empty_and_receiver();
        chk(&mut v, "C10.safety", !is_err(&run_cmd(&w, &mut c3, &mut rx3, "use-db d tok").0));
    }
    Ok(v)
}
fn scenario_ids(sc: &str) -> Result<Violations, String> {
    // sc = comma separated ids of pre-existing databases, e.g. "2" or "1,3"
    if sc == "lockorder" { return scenario_ids_lockorder(); }
    let dbs = mk_dbs();
    let mut v: Violations = vec![];
    for (i, id) in sc.split(',').filter(|e| !e.is_empty()).enumerate() {
        dbs.add_database(Database::new(format!("db{}", i), DatabaseMataData::new(id.parse().map_err(|_| "bad id")?, ConsensuStrategy::None)));
    }
    let (client, _rx) = Client::new_empty_and_receiver();
    create_db(&"fresh".to_string(), &"tok".to_string(), &dbs, &client, ConsensuStrategy::None);
    let m = dbs.map.read().unwrap();
    let mut ids: Vec<usize> = m.values().map(|d| d.metadata.id).collect();
    let n = ids.len(); ids.sort(); ids.dedup();
    let ok = ids.len() == n;
    for l in ["C16.db-fresh", "C16.next-id-fresh", "C16.db-ids-wf", "C16.db-ids-unique"] { chk(&mut v, l, ok); }
    Ok(v)
}
fn all_ids_scenarios() -> Vec<String> {
    let mut out = vec!["".to_string()];
    for a in 1..6 { out.push(format!("{}", a)); for b in 1..6 { if a != b { out.push(format!("{},{}", a, b)); } } }
    out.push("lockorder".to_string());
    out
}

// ------------------------------------------------------------------ family: oplog (catch-up query over a hand-written log file)
fn scenario_oplog(sc: &str) -> Result<Violations, String> {
    // sc = "<t0.t1.t2...>|<since>"   record i has time t_i, db 1 + i % 2, key 10 + (i / 2) % 2, op i % 4
    use nundb::disk_ops::*;
    let p: Vec<&str> = sc.split('|').collect();
    // "n<count>": a long log - <count> records with the times 1000, 1001, ... over 2 databases x 40 keys (longer than any block a reader may fetch at once)
    let long = p[0].starts_with('n');
    let times: Vec<u64> = if long { (0..p[0][1..].parse::<u64>().map_err(|_| "bad count")?).map(|i| 1000 + i).collect() } else { p[0].split('.').filter(|x| !x.is_empty()).map(|x| x.parse().unwrap()).collect() };
    let since: u64 = p[1].parse().map_err(|_| "bad since")?;
    let dir = std::env::var("NUN_DBS_DIR").map_err(|_| "NUN_DBS_DIR not set")?;
    // consecutive scenarios that differ only in `since` share the files on disk (the rotated files must have strictly increasing creation times, and file timestamps
    // advance only with the kernel's clock tick: laying the files out again for every query would cost a few milliseconds each)
    static LAYOUT: std::sync::Mutex<String> = std::sync::Mutex::new(String::new());
    let layout_key = format!("{}|{}", p[0], if p.len() > 2 { p[2] } else { "" });
    let reuse = { let l = LAYOUT.lock().unwrap(); !layout_key.is_empty() && *l == layout_key && std::path::Path::new(&format!("{}/oplog-nun.op", dir)).exists() };
    if !reuse { let _ = std::fs::remove_dir_all(format!("{}/oplog", dir)); }
    let mut bytes: Vec<u8> = vec![];
    // rotated scenarios use two keys of one database so that a key has records of different kinds in different files
    let rotated = p.len() > 2;
    let rec = |i: usize| -> (u64, u64, u8) { if long { (1 + (i % 2) as u64, 10 + ((i / 2) % 40) as u64, (i % 4) as u8) } else if rotated { (1, 10 + (i % 2) as u64, (i % 4) as u8) } else { (1 + (i % 2) as u64, 10 + ((i / 2) % 2) as u64, (i % 4) as u8) } };
    for (i, t) in times.iter().enumerate() {
        let (db, key, op) = rec(i);
        bytes.extend_from_slice(&t.to_le_bytes()); bytes.extend_from_slice(&key.to_le_bytes()); bytes.extend_from_slice(&db.to_le_bytes()); bytes.push(op);
    }
    // optional third field: cut positions - the records before each cut are in rotated files (oldest first, created in that order), the rest in the live file
    let cuts: Vec<usize> = if p.len() > 2 { p[2].split('.').filter(|x| !x.is_empty()).map(|x| x.parse().unwrap()).collect() } else { vec![] };
    let mut start = 0usize;
    if !cuts.is_empty() && !reuse { std::fs::create_dir_all(format!("{}/oplog", dir)).map_err(|e| e.to_string())?; }
    let mut prev_created: Option<std::time::SystemTime> = None;
    for (n, c) in cuts.iter().enumerate() {
        if !reuse {
            // strictly increasing creation times: a file whose creation time is not later than its predecessor's is written again after a pause
            // the number in a rotated file's name is the local clock at the roll-over; the records inside carry the ids the PRIMARY of that time handed out, which may well
            // be larger (clock skew between nodes): the names here are smaller than every record time, and nothing may depend on them
            let path = format!("{}/oplog/oplog-nun-{}.op", dir, n);
            let mut tries = 0;
            loop {
                std::fs::write(&path, &bytes[start * 25..c * 25]).map_err(|e| e.to_string())?;
                let created = std::fs::metadata(&path).and_then(|m| m.created()).map_err(|e| e.to_string())?;
                if prev_created.map_or(true, |pc| created > pc) { prev_created = Some(created); break; }
                tries += 1;
                if tries > 200 { return Err("file creation times do not advance".into()); }
                let _ = std::fs::remove_file(&path);
                std::thread::sleep(std::time::Duration::from_millis(1));
            }
        }
        start = *c;
    }
    if !reuse { std::fs::write(format!("{}/oplog-nun.op", dir), &bytes[start * 25..]).map_err(|e| e.to_string())?; }
    *LAYOUT.lock().unwrap() = layout_key;
    let mut v: Violations = vec![];
    let r = match catch_unwind(AssertUnwindSafe(|| read_operations_since(since))) { Ok(r) => r, Err(_) => { v.push("C10.safety".into()); return Ok(v); } };
    for (i, t) in times.iter().enumerate() {
        let (db, key, op) = rec(i);
        let k = format!("{}_{}", db, key);
        if *t > since { chk(&mut v, "C12.after", r.contains_key(&k)); chk(&mut v, "C05.catch-up-misses-nothing", r.contains_key(&k)); chk(&mut v, "C12.all-files-after", r.contains_key(&k)); }
        if *t == since { chk(&mut v, "C12.at", r.contains_key(&k)); }
        let last = !(i + 1..times.len()).any(|j| rec(j).0 == db && rec(j).1 == key);
        if *t >= since && last {
            chk(&mut v, "C12.latest", r.get(&k).map_or(false, |o| o.timestamp == *t && o.db == db && o.key == key && o.opp.to_u8() == op));
            // (the incremental synchronisation sends what this record SAYS - a write or a remove: a stale label re-sends a removed key or removes a live one)
            chk(&mut v, "C05.catch-up-names-the-latest-record", r.get(&k).map_or(false, |o| o.timestamp == *t && o.opp.to_u8() == op));
        }
    }
    if std::env::var("VERIF_TRACE").is_ok() {
        if let Ok(rd) = std::fs::read_dir(format!("{}/oplog", dir)) { for e in rd.flatten() { eprintln!("file {:?} created {:?} len {}", e.file_name(), e.metadata().unwrap().created().unwrap(), e.metadata().unwrap().len()); } }
        let mut ks: Vec<_> = r.iter().map(|(k, o)| (k.clone(), o.timestamp, o.opp.to_u8())).collect(); ks.sort(); eprintln!("result {:?}", ks);
    }
    // nothing is invented: every pair the query names is a pair the log mentions, labelled with one of its records (a pair whose records are all older than the starting point may
    // be named too - the statement asks for every pair with a record at or after it, not for those only)
    let named: std::collections::HashSet<String> = (0..times.len()).map(|i| { let (db, key, _) = rec(i); format!("{}_{}", db, key) }).collect();
    chk(&mut v, "C12.latest", r.iter().all(|(k, o)| named.contains(k) && format!("{}_{}", o.db, o.key) == *k));
    let lt = Oplog::last_op_time();
    if cuts.is_empty() || start < times.len() { chk(&mut v, "C12.last-op-time", lt == times.last().cloned().unwrap_or(0)); }
    Ok(v)
}
fn all_oplog_scenarios() -> Vec<String> {
    let mut out = vec![];
    fn rec(cur: &mut Vec<u64>, depth: usize, out: &mut Vec<String>) {
        let mut sinces: Vec<u64> = vec![0, 1, 1000];
        for t in cur.iter() { sinces.push(*t); sinces.push(*t + 1); if *t > 0 { sinces.push(*t - 1); } }
        sinces.sort(); sinces.dedup();
        let ts: Vec<String> = cur.iter().map(|t| t.to_string()).collect();
        for s in sinces { out.push(format!("{}|{}", ts.join("."), s)); }
        if depth == 0 { return; }
        let last = cur.last().cloned().unwrap_or(10);
        for gap in [0u64, 1, 2] { cur.push(last + gap); rec(cur, depth - 1, out); cur.pop(); }
    }
    rec(&mut vec![], if deep() { 8 } else { 6 }, &mut out);
    // rotated logs: the same record lists (up to 4 / deep 5 records) cut into one or two rotated files plus the live file
    let mut rot = vec![];
    rec(&mut vec![], if deep() { 5 } else { 4 }, &mut rot);
    // ordered by (records, cuts) so that the queries of one layout follow each other
    let mut rotated: Vec<(String, String, String)> = vec![];
    for sc in rot {
        let n = sc.split('|').next().unwrap().split('.').filter(|x| !x.is_empty()).count();
        let (times, since) = sc.split_once('|').unwrap();
        for c1 in 1..=n { rotated.push((times.to_string(), format!("{}", c1), since.to_string())); for c2 in c1 + 1..=n { rotated.push((times.to_string(), format!("{}.{}", c1, c2), since.to_string())); } }
    }
    rotated.sort_by(|a, b| (a.0.as_str(), a.1.as_str()).cmp(&(b.0.as_str(), b.1.as_str())));
    for (times, cuts, since) in rotated { out.push(format!("{}|{}|{}", times, since, cuts)); }
    for since in [0u64, 999, 1000, 1001, 1100, 1163, 1164, 1236, 1399, 1400] { out.push(format!("n400|{}", since)); out.push(format!("n400|{}|150.300", since)); }
    out
}


// ------------------------------------------------------------------ family: session (commands through process_request)
use nundb::process_request::process_request;

struct World { dbs: Arc<Databases> }
fn run_cmd(w: &World, c: &mut Client, rx: &mut Receiver<String>, cmd: &str) -> (Response, Vec<String>) {
    let r = process_request(cmd, &w.dbs, c);
    (r, drain(rx))
}
/// db "d" (token "tok"), keys secret=42 public1=p1 sea=7, `$$secret` (variant dependent), users usr (list "r sec*|w pub*") and nolist
fn mk_world(variant: u8) -> World {
    let dbs = mk_dbs();
    let (mut admin, mut arx) = Client::new_empty_and_receiver();
    let w = World { dbs };
    for c in ["auth u p", "create-db d tok", "use-db d tok", "set secret 42", "set public1 p1", "set sea 7",
              "set user1 u1", "set publicity-budget 1000", "set my-public mp", "set cnt 3", "set xcnt 4", "set gone g",
              "create-user usr ut", "create-user nolist nt", "create-user mix mt", "create-user star st",
              "set-permissions usr r sec*|w pub*", "set-permissions mix rw user*,*public|i cnt", "set-permissions star rwix *"] {
        run_cmd(&w, &mut admin, &mut arx, c);
    }
    {   // "gone" was snapshotted and then removed: it stays in memory as a tombstone
        let m = w.dbs.map.read().unwrap();
        let db = m.get("d").unwrap();
        let v = db.get_value("gone".into()).unwrap();
        db.set_value_as_ok(&"gone".to_string(), &v, 11, 12, v.opp_id);
        remove_key(&"gone".to_string(), db);
    }
    run_cmd(&w, &mut admin, &mut arx, if variant == 0 { "set $$secret S3CR3T-A" } else { "set $$secret S3CR3T-B-longer" });
    // a user nobody in the scenarios logs in as: its token and permission list are $$ keys no session may learn anything about
    run_cmd(&w, &mut admin, &mut arx, "create-user ghost gt");
    run_cmd(&w, &mut admin, &mut arx, if variant == 0 { "set-permissions ghost rwix *" } else { "set-permissions ghost r nothing" });
    if variant == 1 { run_cmd(&w, &mut admin, &mut arx, "set $$extra XTRA"); }
    std::mem::forget(arx);
    w
}
fn secure_dump(w: &World) -> Vec<(String, String, i32)> {
    let m = w.dbs.map.read().unwrap();
    let db = m.get("d").unwrap();
    let mut v: Vec<(String, String, i32)> = db.map.read().unwrap().iter().filter(|(k, _)| k.starts_with("$$")).map(|(k, e)| (k.clone(), e.value.clone(), e.version)).collect();
    v.sort();
    v
}
/// a reply without the clock-derived op ids it may carry
fn norm_reply(r: &Response) -> String {
    match r {
        Response::VersionError { msg, key, old_version, version, old_value, state, change, db } =>
            format!("VersionError {} {} {} {} {} {:?} {} {}", msg, key, old_version, version, old_value.value, state, change.value, db),
        other => format!("{:?}", other),
    }
}
fn is_err(r: &Response) -> bool { matches!(r, Response::Error { .. }) }

const LOGIN: [&str; 6] = ["", "use-db d tok", "use-db d usr ut", "use-db d nolist nt", "use-db d mix mt", "use-db d star st"];
const PERM_KEYS: [&str; 9] = ["secret", "public1", "sea", "user1", "publicity-budget", "my-public", "cnt", "xcnt", "gone"];
/// the permission lists of the world, as stored
fn perm_list(login: &str) -> Option<&'static str> {
    match login { "use-db d usr ut" => Some("r sec*|w pub*"), "use-db d mix mt" => Some("rw user*,*public|i cnt"), "use-db d star st" => Some("rwix *"), _ => None }
}
/// reference semantics of a permission list, written from the documentation (user-management.md): statements separated by `|`,
/// each `<kind letters> <pattern>,<pattern>...`; `x*` = prefix, `*x` = suffix, otherwise substring
fn ref_list_grants(list: &str, key: &str, kind: char) -> bool {
    list.split('|').any(|st| {
        let mut it = st.splitn(2, ' ');
        let kinds = it.next().unwrap_or("");
        let pats = it.next().unwrap_or("");
        kinds.contains(kind) && pats.split(',').any(|p| {
            if p.ends_with('*') { key.starts_with(&p.replace("*", "")) } else if p.starts_with('*') { key.ends_with(&p.replace("*", "")) } else { key.contains(p) }
        })
    })
}
const RESOLVE_CMDS: [&str; 4] = ["resolve 1 d $$secret 0 hacked", "resolve 1 d $$token 0 hacked", "resolve 1 d secret 0 hacked", "resolve 1 d public1 0 hacked"];
const DATA_CMDS: [&str; 22] = ["get secret", "get-safe secret", "get public1", "set secret x", "set public1 y", "set-safe public1 0 z", "increment sea 1", "remove public1", "remove secret",
    "watch secret", "keys", "keys *", "keys $*", "keys $$*", "keys *$$", "keys sec*", "keys *1",
    "get $$secret", "set $$secret hacked", "remove $$token", "increment $$secret 1", "watch $$secret"];
const ADMIN_CMDS: [&str; 9] = ["create-db x xt", "create-user eve et", "set-permissions usr rwix *", "snapshot false d", "cluster-state", "metrics-state",
    "replicate d secret -1 replaced", "replicate-remove d secret", "debug list-dbs"];
// wrong credentials: unrelated text, the stored secret with something appended / prepended, a proper prefix of it, another case, the empty text
const USE_FAIL: [&str; 14] = ["use-db d wrong", "use-db d usr wrong", "use-db nosuch tok", "use-db d nolist wrong", "use-db d ghost wrong", "use-db d ghost tok",
    "use-db d tok2", "use-db d to", "use-db d xtok", "use-db d TOK", "use-db d usr ut-more", "use-db d usr u", "use-db d usr UT", "use-db d nolist ntnt"];
const AUTH_FAIL: [&str; 6] = ["auth u pp", "auth u p2", "auth u P", "auth uu p", "auth u wrong", "auth U p"];

fn ref_allowed(login: &str, key: &str, kind: char) -> bool {
    if key.starts_with("$$") { return false; }
    if login == "use-db d tok" { return true; }
    match perm_list(login) { Some(l) => ref_list_grants(l, key, kind), None => false }
}
fn ref_keys(pattern: &str, all: &[&str]) -> Vec<String> {
    let mut v: Vec<String> = all.iter().filter(|k| !k.starts_with("$$")).filter(|k| {
        if pattern.ends_with('*') { k.starts_with(&pattern.replace("*", "")) } else if pattern.starts_with('*') { k.ends_with(&pattern.replace("*", "")) } else { k.contains(pattern) }
    }).map(|k| k.to_string()).collect();
    v.sort();
    v
}

fn scenario_session(sc: &str) -> Result<Violations, String> {
    // sc = "<login idx>|<cmd a>;<cmd b>"  (commands taken literally)
    let p: Vec<&str> = sc.splitn(2, '|').collect();
    let login = LOGIN[p[0].parse::<usize>().map_err(|_| "bad login")?];
    let cmds: Vec<&str> = p[1].split(';').filter(|c| !c.is_empty()).collect();
    let mut v: Violations = vec![];
    let mut transcripts: Vec<Vec<String>> = vec![];
    for variant in 0..2u8 {
        let w = mk_world(variant);
        let before = secure_dump(&w);
        let dbs_before: Vec<String> = { let m = w.dbs.map.read().unwrap(); let mut x: Vec<String> = m.keys().cloned().collect(); x.sort(); x };
        let (mut c, mut rx) = Client::new_empty_and_receiver();
        let mut tr: Vec<String> = vec![];
        if !login.is_empty() { run_cmd(&w, &mut c, &mut rx, login); }
        for cmd in &cmds {
            // <CR> <TAB> <NBSP> stand for the characters themselves (kept out of the scenario text, which is printed as JSON)
            let cmd_owned = cmd.replace("<CR>", "\r").replace("<TAB>", "\t").replace("<NBSP>", "\u{a0}");
            let cmd = &cmd_owned.as_str();
            let sel_before = (c.selected_db_name(), c.selected_db_user_name());
            let out = catch_unwind(AssertUnwindSafe(|| run_cmd(&w, &mut c, &mut rx, cmd)));
            let (r, msgs) = match out { Ok(x) => x, Err(_) => { v.push("C10.safety".into()); return Ok(v); } };
            tr.push(format!("{} {:?}", norm_reply(&r), msgs));
            let word = cmd.split(' ').next().unwrap_or("");
            let key = cmd.split(' ').nth(1).unwrap_or("");
            // ---- C08: secure keys
            if key.starts_with("$$") && ["get", "get-safe", "set", "set-safe", "increment", "remove", "watch"].contains(&word) {
                chk(&mut v, "C08.secure-guard", is_err(&r)); chk(&mut v, "C08.secure-refusal", is_err(&r));
            }
            let leaked = format!("{:?}{:?}", r, msgs);
            chk(&mut v, "C08.secure-guard", !leaked.contains("S3CR3T"));
            if word == "keys" { chk(&mut v, "C08.listing-hides-secure", !leaked.contains("$$")); }
            // ---- C09: admin commands need authentication
            if ADMIN_CMDS.contains(cmd) {
                chk(&mut v, "C09.auth-gate", is_err(&r)); chk(&mut v, "C09.auth-refusal", is_err(&r));
            }
            // ---- C09: data commands need a selected database; permissions
            if (DATA_CMDS.contains(cmd) || PERM_KEYS.contains(&key)) && !key.starts_with("$$") {
                if login.is_empty() { chk(&mut v, "C09.needs-selected-db", is_err(&r)); }
                let kind = match word { "get" | "get-safe" | "watch" => Some('r'), "set" | "set-safe" => Some('w'), "increment" => Some('i'), "remove" => Some('x'), _ => None };
                if let Some(k) = kind {
                    if !login.is_empty() && c.selected_db_name().is_some() {
                        let allowed = ref_allowed(login, key, k);
                        if !allowed { chk(&mut v, "C09.permission-gate", is_err(&r)); chk(&mut v, "C09.no-list", is_err(&r)); chk(&mut v, "C09.list-decides", is_err(&r)); }
                        else {
                            // allowed: the command may still fail for its own reasons (e.g. "Key is not numeric"), but not for lack of permission
                            let denied = matches!(&r, Response::Error { msg } if msg == "permission denied\n");
                            chk(&mut v, "C09.list-decides", !denied); chk(&mut v, "C09.token-session-default", !denied);
                        }
                    }
                }
            }
            // ---- C08 / C09: `resolve` is a write: it needs write permission on the key, and a $$ key needs an administrator
            if word == "resolve" {
                let rk = cmd.split(' ').nth(3).unwrap_or("");
                let m = w.dbs.map.read().unwrap(); let db = m.get("d").unwrap();
                let now = db.get_value(rk.to_string()).map(|e| e.value);
                let hacked = now.as_deref() == Some("hacked");
                if rk.starts_with("$$") { chk(&mut v, "C08.resolve-guarded", !hacked); chk(&mut v, "C08.secure-guard", !hacked); }
                else if !ref_allowed(login, rk, 'w') { chk(&mut v, "C09.resolve-needs-write", !hacked); chk(&mut v, "C09.permission-gate", !hacked); }
            }
            // ---- C09: a failed use-db leaves the previous selection untouched
            if USE_FAIL.contains(cmd) {
                chk(&mut v, "C09.failed-use-db", is_err(&r) && (c.selected_db_name(), c.selected_db_user_name()) == sel_before);
                for l in ["C09.failed-use-db-keeps-the-session", "C08.failed-login-changes-nothing"] { chk(&mut v, l, (c.selected_db_name(), c.selected_db_user_name()) == sel_before); }
                for l in ["C09.db-token", "C09.user-token", "C09.use-db-credentials"] { chk(&mut v, l, is_err(&r)); }
            }
            // ---- C09: only the exact administrator name and password authenticate a session
            if AUTH_FAIL.contains(cmd) {
                let authed = c.auth.load(std::sync::atomic::Ordering::SeqCst);
                chk(&mut v, "C09.auth-exact-credentials", !authed);
                chk(&mut v, "C09.auth-gate", !authed);
            }
            // ---- C01: keys lists exactly the live keys matching the pattern, sorted, hiding $$ keys
            if word == "keys" && !login.is_empty() && !is_err(&r) {
                if let Response::Value { value, .. } = &r {
                    let m = w.dbs.map.read().unwrap(); let db = m.get("d").unwrap();
                    let live: Vec<String> = db.map.read().unwrap().iter().filter(|(_, e)| e.state != ValueStatus::Deleted).map(|(k, _)| k.clone()).collect();
                    let live_ref: Vec<&str> = live.iter().map(|x| x.as_str()).collect();
                    let want = ref_keys(key, &live_ref);
                    let got: Vec<String> = value.split(',').filter(|x| !x.is_empty()).map(|x| x.to_string()).collect();
                    chk(&mut v, "C01.keys-listing", got == want);
                }
            }
        }
        // ---- C08: $$ keys are unchanged by a non-admin session; C09: admin state unchanged
        chk(&mut v, "C08.secure-unchanged", secure_dump(&w) == before);
        // ---- C08: afterwards an administrator writes and removes secure keys (values differ between the two worlds): whatever the session subscribed to, it hears nothing of it
        {   let (mut adm, mut adrx) = Client::new_empty_and_receiver();
            for cmd in ["auth u p".to_string(), "use-db d tok".to_string(), format!("set $$secret S3CR3T-again-{}", variant), format!("set $$fresh F-{}", if variant == 0 { "a" } else { "bb" }), "create-user late lt".to_string(), "remove $$fresh".to_string()] { run_cmd(&w, &mut adm, &mut adrx, &cmd); }
            let heard = drain(&mut rx);
            chk(&mut v, "C08.secure-guard", !heard.iter().any(|m| m.contains("$$")));
            chk(&mut v, "C08.watch-never-reports-secure-keys", !heard.iter().any(|m| m.contains("$$")));
            tr.push(format!("afterwards {:?}", heard));
        }
        let dbs_after: Vec<String> = { let m = w.dbs.map.read().unwrap(); let mut x: Vec<String> = m.keys().cloned().collect(); x.sort(); x };
        chk(&mut v, "C09.auth-gate", dbs_after == dbs_before);
        transcripts.push(tr);
    }
    // ---- C08: replies identical whatever administrators stored under $$ keys
    chk(&mut v, "C08.noninterference", transcripts[0] == transcripts[1]);
    Ok(v)
}
fn all_session_scenarios() -> Vec<String> {
    let mut out = vec![];
    for l in 0..LOGIN.len() {
        for a in DATA_CMDS.iter().chain(ADMIN_CMDS.iter()).chain(RESOLVE_CMDS.iter()) { out.push(format!("{}|{}", l, a)); }
        for k in PERM_KEYS { for c in ["get", "set", "increment", "remove", "watch"] { out.push(format!("{}|{} {}{}", l, c, k, if c == "set" { " v" } else if c == "increment" { " 1" } else { "" })); } }
        for pat in ["keys g*", "keys *e", "keys on", "keys go*", "keys cnt", "keys sea", "keys public", "keys user1", "keys xcnt"] { out.push(format!("{}|{}", l, pat)); }
        // a key that merely CONTAINS a secure key's name behind a blank is another key: whatever is done with it tells nothing about, and changes nothing of, the $$ key
        for wild in ["watch *", "watch $*", "watch *secret", "watch *fresh", "watch $$*"] { out.push(format!("{}|{}", l, wild)); }
        for padded in ["get <CR>$$secret", "get-safe <TAB>$$secret", "get <NBSP>$$secret", "get $$secret<CR>", "watch <CR>$$secret", "remove <CR>$$secret", "remove <TAB>$$token",
                       "set <TAB>$$secret hacked", "increment <CR>$$secret 1", "get <CR>$$user_usr"] { out.push(format!("{}|{}", l, padded)); }
        for f in USE_FAIL { for a in ["get secret", "get public1", "set secret x", "keys", "remove sea"] { out.push(format!("{}|{};{}", l, f, a)); } }
        for f in AUTH_FAIL { for a in ["create-db x xt", "get $$secret", "set-permissions usr rwix *", "set $$secret hacked"] { out.push(format!("{}|{};{}", l, f, a)); } }
        // a session that registers itself as arbiter (or watches the conflict channel) gains no right to write
        for pre in ["arbiter", "watch $conflicts"] { for r in RESOLVE_CMDS { out.push(format!("{}|{};{}", l, pre, r)); } }
        for a in ["set public1 y", "remove public1", "remove secret", "increment sea 1"] { for b in ["keys", "keys *", "get public1", "get secret", "keys pub*"] { out.push(format!("{}|{};{}", l, a, b)); } }
        if deep() {
            for a in DATA_CMDS.iter().chain(USE_FAIL.iter()) { for b in DATA_CMDS.iter().chain(ADMIN_CMDS.iter()) { out.push(format!("{}|{};{}", l, a, b)); } }
        }
    }
    out
}

// ------------------------------------------------------------------ family: values (C01: what is written is what is read, byte for byte, also when it ends in blanks)
const EDGE_VALUES: [&str; 15] = ["a", "a ", "a  ", "a\t", "two words ", " ", "  ", "x \t ", "tab\tinside", "ação ✓ ", "3 new messages", "1 2", "-1 x", "0", "7 "];
/// a value with an inner line feed (deliverable in an HTTP body or a WebSocket frame): what a non-administrator writes under an ordinary key is copied into the line-based
/// replication text - no line of it may carry a second command (`... \nreplicate d $$secret -1 hacked` would be run by the receiving node with the peer's rights)
fn scenario_values_smuggle(kind: &str) -> Result<Violations, String> {
    let (d, mut rep) = mk_dbs_rx(ClusterRole::Primary);
    let w = World { dbs: d };
    let mut v: Violations = vec![];
    let (mut admin, mut arx) = Client::new_empty_and_receiver();
    for c in ["auth u p", "create-db d tok", "use-db d tok", "set $$secret s3cr3t"] { run_cmd(&w, &mut admin, &mut arx, c); }
    drain(&mut rep);
    let (mut c, mut rx) = Client::new_empty_and_receiver();
    run_cmd(&w, &mut c, &mut rx, "use-db d tok");
    let line = match kind {
        "safe" => "set-safe name -1 jose\nreplicate d $$secret -1 hacked",
        // the line feed inside the KEY: the rest of the line is the smuggled command's tail
        "key" => "set name\nreplicate d $$secret -1 hacked",
        "keysafe" => "set-safe name\nreplicate d $$secret -1 hacked",
        "remove" => "remove name\nreplicate d $$secret -1 hacked",
        "increment" => "increment cnt\nreplicate d $$secret -1 hacked",
        "resolve" => "resolve 5 d name 0 jose\nreplicate d $$secret -1 hacked",
        _ => "set name jose\nreplicate d $$secret -1 hacked" };
    if catch_unwind(AssertUnwindSafe(|| { run_cmd(&w, &mut c, &mut rx, line); })).is_err() { v.push("C10.safety".into()); return Ok(v); }
    let lines = drain(&mut rep);
    if lines.is_empty() { return Ok(v); }   // refused: nothing left the node
    let clean = lines.iter().all(|l| !l.trim_end_matches('\n').contains('\n'));
    if std::env::var("VERIF_TRACE").is_ok() && !clean { eprintln!("replication channel: {:?}", lines); }
    chk(&mut v, "C08.value-carries-no-line-feed", clean);
    chk(&mut v, "C08.secure-unchanged", clean);
    std::mem::forget(arx);
    Ok(v)
}
fn scenario_values(sc: &str) -> Result<Violations, String> {
    // sc = "<value idx>|<write kind: set | safe | term>"   term: the line arrives with its "\n" terminator (as the TCP transport delivers it)
    if let Some(k) = sc.strip_prefix("smuggle|") { return scenario_values_smuggle(k); }
    let p: Vec<&str> = sc.split('|').collect();
    let val = *EDGE_VALUES.get(p[0].parse::<usize>().map_err(|_| "bad idx")?).ok_or("bad idx")?;
    let w = mk_world(0);
    let mut v: Violations = vec![];
    let (mut c, mut rx) = Client::new_empty_and_receiver();
    let (mut wch, mut wrx) = Client::new_empty_and_receiver();
    run_cmd(&w, &mut c, &mut rx, "use-db d tok");
    run_cmd(&w, &mut wch, &mut wrx, "use-db d tok");
    run_cmd(&w, &mut wch, &mut wrx, "watch vk");
    drain(&mut wrx);
    let line = match p[1] { "set" => format!("set vk {}", val), "safe" => format!("set-safe vk -1 {}", val), "term" => format!("set vk {}\n", val), _ => return Err("bad kind".into()) };
    let out = catch_unwind(AssertUnwindSafe(|| { let r = run_cmd(&w, &mut c, &mut rx, &line); (r, run_cmd(&w, &mut c, &mut rx, "get vk")) }));
    let ((wr, _), (r, _)) = match out { Ok(x) => x, Err(_) => { v.push("C10.safety".into()); return Ok(v); } };
    if is_err(&wr) { return Err("write refused".into()); }
    let stored = { let m = w.dbs.map.read().unwrap(); m.get("d").unwrap().get_value("vk".into()).map(|e| e.value) };
    let read = match &r { Response::Value { value, .. } => Some(value.clone()), _ => None };
    let told = drain(&mut wrx);
    let ok = stored.as_deref() == Some(val) && read.as_deref() == Some(val);
    chk(&mut v, "C01.value-round-trip", ok);
    for l in ["C01.set-visible", "C01.read-last-written"] { chk(&mut v, l, ok); }
    chk(&mut v, "C03.emit-set", told.iter().any(|m| m == &format!("changed vk {}\n", val)));
    Ok(v)
}
fn all_values_scenarios() -> Vec<String> {
    let mut out = vec![];
    for i in 0..EDGE_VALUES.len() { for k in ["set", "safe", "term"] { out.push(format!("{}|{}", i, k)); } }
    for k in ["set", "safe", "key", "keysafe", "remove", "increment", "resolve"] { out.push(format!("smuggle|{}", k)); }
    out
}

// ------------------------------------------------------------------ family: forward (C08 / C09 on a secondary: a write the guard refuses is not handed to the primary either)
const FORWARD_CMDS: [&str; 14] = ["set $$secret hacked", "set-safe $$secret 0 hacked", "increment $$secret 1", "remove $$secret", "remove $$token", "set $$user_usr hacked", "set $$permission_$usr rwix *",
    "set secret x", "set public1 y", "increment sea 1", "increment cnt 1", "remove public1", "remove secret", "set-safe public1 0 z"];
fn scenario_forward(sc: &str) -> Result<Violations, String> {
    // sc = "<login idx>|<cmd>": the node is a secondary whose member table names a primary; the line the primary would receive is read from the link
    let p: Vec<&str> = sc.splitn(2, '|').collect();
    let login = LOGIN[p[0].parse::<usize>().map_err(|_| "bad login")?];
    let cmd = p[1];
    let w = mk_world(0);
    let (ptx, mut prx): (Sender<String>, Receiver<String>) = channel(1000);
    w.dbs.add_cluster_member(ClusterMember { name: "primary:1".into(), role: ClusterRole::Primary, sender: Some(ptx) });
    w.dbs.node_state.swap(ClusterRole::Secoundary as usize, std::sync::atomic::Ordering::Relaxed);
    let mut v: Violations = vec![];
    let (mut c, mut rx) = Client::new_empty_and_receiver();
    if !login.is_empty() { run_cmd(&w, &mut c, &mut rx, login); }
    drain(&mut prx);
    let out = catch_unwind(AssertUnwindSafe(|| run_cmd(&w, &mut c, &mut rx, cmd)));
    let (r, _) = match out { Ok(x) => x, Err(_) => { v.push("C10.safety".into()); return Ok(v); } };
    let sent = drain(&mut prx);
    let word = cmd.split(' ').next().unwrap_or("");
    let key = cmd.split(' ').nth(1).unwrap_or("");
    let kind = match word { "set" | "set-safe" => 'w', "increment" => 'i', _ => 'x' };
    if key.starts_with("$$") {
        // the session is not an administrator: nothing about a $$ key leaves this node
        for l in ["C08.secure-guard", "C08.refused-write-not-forwarded"] { chk(&mut v, l, is_err(&r) && sent.is_empty()); }
    } else if login.is_empty() || !ref_allowed(login, key, kind) {
        for l in ["C09.permission-gate", "C09.refused-write-not-forwarded"] { chk(&mut v, l, is_err(&r) && sent.is_empty()); }
        if login.is_empty() { chk(&mut v, "C09.needs-selected-db", is_err(&r) && sent.is_empty()); }
    } else {
        // an allowed set / increment is handed to the primary (non-vacuity of this family: the link is wired). A remove is applied locally only - observed, not judged here
        if word != "remove" && !(sent.len() == 1 && sent[0].contains(" d ") && sent[0].contains(key)) { return Err("link silent".into()); }
    }
    Ok(v)
}
fn all_forward_scenarios() -> Vec<String> {
    let mut out = vec![];
    for l in 0..LOGIN.len() { for c in FORWARD_CMDS { out.push(format!("{}|{}", l, c)); } }
    out
}

// ------------------------------------------------------------------ family: resub (C03: a subscription lasts until unwatch / disconnect - selecting a database again does not end it)
fn scenario_resub(sc: &str) -> Result<Violations, String> {
    // sc = events of ONE session separated by '.':  d (use-db d tok) e (use-db e etok) x (use-db d wrong) u (use-db d usr ut) w (watch sea) n (unwatch sea) a (unwatch-all) l (disconnect);
    // after every event another client writes `sea` in d and in e: the session must be told exactly when it holds a subscription in that database
    let w = mk_world(0);
    let (mut admin, mut arx) = Client::new_empty_and_receiver();
    for c in ["auth u p", "create-db e etok", "use-db e etok", "set sea 1", "set-permissions usr r sea"] { run_cmd(&w, &mut admin, &mut arx, c); }
    let (mut wd, mut wdrx) = Client::new_empty_and_receiver();
    let (mut we, mut werx) = Client::new_empty_and_receiver();
    run_cmd(&w, &mut wd, &mut wdrx, "use-db d tok");
    run_cmd(&w, &mut we, &mut werx, "use-db e etok");
    let mut v: Violations = vec![];
    let (mut c, mut rx) = Client::new_empty_and_receiver();
    let mut sel: Option<&str> = None;
    let mut sub: [usize; 2] = [0, 0];   // registrations in d, e
    let mut n = 10;
    for ev in sc.split('.').filter(|e| !e.is_empty()) {
        let ok = catch_unwind(AssertUnwindSafe(|| {
            match ev {
                "d" => { if !is_err(&run_cmd(&w, &mut c, &mut rx, "use-db d tok").0) { sel = Some("d"); } }
                "e" => { if !is_err(&run_cmd(&w, &mut c, &mut rx, "use-db e etok").0) { sel = Some("e"); } }
                "u" => { if !is_err(&run_cmd(&w, &mut c, &mut rx, "use-db d usr ut").0) { sel = Some("d"); } }
                "x" => { run_cmd(&w, &mut c, &mut rx, "use-db d wrong"); }
                "w" => { if !is_err(&run_cmd(&w, &mut c, &mut rx, "watch sea").0) { if let Some(s) = sel { sub[if s == "d" { 0 } else { 1 }] += 1; } } }
                "n" => { run_cmd(&w, &mut c, &mut rx, "unwatch sea"); if let Some(s) = sel { sub[if s == "d" { 0 } else { 1 }] = 0; } }
                "a" => { run_cmd(&w, &mut c, &mut rx, "unwatch-all"); if let Some(s) = sel { sub[if s == "d" { 0 } else { 1 }] = 0; } }
                _ => { c.left(&w.dbs); }
            }
        }));
        if ok.is_err() { v.push("C10.safety".into()); return Ok(v); }
        if ev == "l" { break; }
        drain(&mut rx);
        for (i, wr) in [(0usize, 0u8), (1, 1)] {
            n += 1;
            if wr == 0 { run_cmd(&w, &mut wd, &mut wdrx, &format!("set sea {}", n)); } else { run_cmd(&w, &mut we, &mut werx, &format!("set sea {}", n)); }
            let got = drain(&mut rx);
            let want = 2 * sub[i];
            let okk = got.len() == want && got.iter().all(|m| m.contains(&n.to_string()) || m.starts_with("changed-version sea"));
            chk(&mut v, "C03.subscription-window", okk);
            if matches!(ev, "d" | "e" | "u" | "x") { chk(&mut v, "C03.use-db-keeps-subscriptions", okk); }
        }
    }
    Ok(v)
}
fn all_resub_scenarios() -> Vec<String> {
    let evs = ["d", "e", "u", "x", "w", "n", "a"];
    let mut out = vec![];
    fn rec(evs: &[&str], cur: &mut Vec<String>, depth: usize, out: &mut Vec<String>) {
        if !cur.is_empty() && cur.iter().any(|e| e == "w") { out.push(cur.join(".")); }
        if depth == 0 { return; }
        for e in evs { cur.push(e.to_string()); rec(evs, cur, depth - 1, out); cur.pop(); }
    }
    rec(&evs, &mut vec!["d".to_string()], if deep() { 5 } else { 4 }, &mut out);
    out
}

// ------------------------------------------------------------------ family: logthread (several operations through ONE run of the real replication thread)
fn scenario_logthread(sc: &str) -> Result<Violations, String> {
    // sc = "<role P|U>|<events>"  P: this node is the primary (operations go to the secondaries), U: starting up (operations go to every other member);
    // events separated by '.':  o<k> write of key k<k>   i<k> increment   r<k> remove   - all to the known database, all handled by one replication thread
    use nundb::disk_ops::{read_operations_since, snapshot_keys, Oplog};
    use nundb::replication_ops::{replicate_message_with_sender, start_replication_thread};
    let p: Vec<&str> = sc.split('|').collect();
    if p.len() != 2 { return Err("bad scenario".into()); }
    let dir = std::env::var("NUN_DBS_DIR").map_err(|_| "NUN_DBS_DIR not set")?;
    Oplog::clean_op_log_metadata_files();
    let _ = std::fs::remove_file(format!("{}/keys-nun.keys", dir));
    let (sender, _receiver): (Sender<String>, Receiver<String>) = channel(1000);
    let dbs = Arc::new(Databases::new("".into(), "".into(), "0.0.0.0:1".into(), "me:1".into(), sender.clone(), sender.clone(), HashMap::new(), 1, false));
    let role = if p[0] == "P" { ClusterRole::Primary } else { ClusterRole::StartingUp };
    dbs.node_state.swap(role as usize, std::sync::atomic::Ordering::Relaxed);
    let db_id = dbs.next_db_id();
    dbs.add_database(Database::new("kd".into(), DatabaseMataData::new(db_id, ConsensuStrategy::Newer)));
    snapshot_keys(&dbs);
    let (s1, mut r1): (Sender<String>, Receiver<String>) = channel(1000);
    let (s2, mut r2): (Sender<String>, Receiver<String>) = channel(1000);
    dbs.add_cluster_member(ClusterMember { name: "me:1".into(), role: if p[0] == "P" { ClusterRole::Primary } else { ClusterRole::Secoundary }, sender: None });
    dbs.add_cluster_member(ClusterMember { name: "s1:1".into(), role: ClusterRole::Secoundary, sender: Some(s1) });
    dbs.add_cluster_member(ClusterMember { name: "s2:1".into(), role: ClusterRole::Secoundary, sender: Some(s2) });
    let mut v: Violations = vec![];
    let evs: Vec<&str> = p[1].split('.').filter(|e| !e.is_empty()).collect();
    let mut ids: Vec<(u64, String)> = vec![];
    let ok = catch_unwind(AssertUnwindSafe(|| {
        let (mut tx, rx): (Sender<String>, Receiver<String>) = channel(100);
        for ev in &evs {
            let key = format!("k{}", &ev[1..]);
            let msg = match &ev[0..1] { "o" => format!("replicate kd {} -1 v", key), "i" => format!("replicate-increment kd {} 1", key), _ => format!("replicate-remove kd {}", key) };
            ids.push((replicate_message_with_sender(&tx, msg).unwrap(), key));
        }
        tx.try_send("exit".to_string()).unwrap();
        futures::executor::block_on(start_replication_thread(rx, dbs.clone()));
    }));
    if ok.is_err() { v.push("C10.safety".into()); return Ok(v); }
    // ---- C05 / C12: a node that was away since just before operation i is told about the key of operation i, whatever was logged before
    let key_ids = dbs.keys_map.read().unwrap().clone();
    for (t, key) in &ids {
        let since = read_operations_since(*t);
        let kid = key_ids.get(key).cloned().unwrap_or(u64::MAX);
        let found = since.contains_key(&format!("{}_{}", db_id, kid));
        for l in ["C05.rewritten-key-is-resent", "C12.every-operation-logged", "C12.after", "C12.at"] { chk(&mut v, l, found); }
    }
    chk(&mut v, "C12.last-op-time", ids.last().map_or(true, |(t, _)| Oplog::last_op_time() == *t));
    chk(&mut v, "C12.newest-record-is-in-the-live-file", ids.last().map_or(true, |(t, _)| Oplog::last_op_time() == *t));
    // ---- C15: each operation is pending for exactly the nodes it was sent to (never for this node itself), and for nobody once they have all acknowledged
    let got1 = drain(&mut r1); let got2 = drain(&mut r2);
    for l in ["C15.sent-to-every-target", "C15.pending-only-for-nodes-sent-to"] { chk(&mut v, l, got1.len() == ids.len() && got2.len() == ids.len()); }
    for (t, _) in &ids {
        let names: Option<Vec<String>> = dbs.get_pending_opp_copy(*t).map(|m| { let mut n: Vec<String> = m.replications.lock().unwrap().keys().cloned().collect(); n.sort(); n });
        let want = vec!["s1:1".to_string(), "s2:1".to_string()];
        for l in ["C15.pending-only-for-nodes-sent-to", "C15.not-pending-for-self", "C15.register-pending"] { chk(&mut v, l, names.as_ref() == Some(&want)); }
        // the acknowledgements arrive as `ack <id> <node>` lines on an authenticated peer link; between the two this node is demoted (it was told who the primary is):
        // what it registered while it was primary / starting up is settled all the same
        let w = World { dbs: dbs.clone() };
        let (mut peer, mut peerrx) = Client::new_empty_and_receiver();
        peer.auth.swap(true, std::sync::atomic::Ordering::Relaxed);
        run_cmd(&w, &mut peer, &mut peerrx, &format!("ack {} s1:1", t));
        chk(&mut v, "C15.pending-iff-owing", dbs.get_pending_opp_copy(*t).is_some());
        let role_before = dbs.get_role();
        dbs.node_state.swap(ClusterRole::Secoundary as usize, std::sync::atomic::Ordering::Relaxed);
        run_cmd(&w, &mut peer, &mut peerrx, &format!("ack {} s2:1", t));
        dbs.node_state.swap(role_before as usize, std::sync::atomic::Ordering::Relaxed);
        for l in ["C15.returns-to-zero", "C15.pending-iff-owing", "C15.not-pending-for-self", "C15.ack-settles-whatever-the-role"] { chk(&mut v, l, dbs.get_pending_opp_copy(*t).is_none()); }
    }
    Oplog::clean_op_log_metadata_files();
    Ok(v)
}
fn all_logthread_scenarios() -> Vec<String> {
    let evs = ["o1", "o2", "i1", "r1"];
    let mut hist = vec![];
    fn rec(evs: &[&str], cur: &mut Vec<String>, depth: usize, out: &mut Vec<String>) {
        if !cur.is_empty() { out.push(cur.join(".")); }
        if depth == 0 { return; }
        for e in evs { cur.push(e.to_string()); rec(evs, cur, depth - 1, out); cur.pop(); }
    }
    rec(&evs, &mut vec![], if deep() { 4 } else { 3 }, &mut hist);
    let mut out = vec![];
    for h in hist { for r in ["P", "U"] { out.push(format!("{}|{}", r, h)); } }
    out
}

// ------------------------------------------------------------------ family: logroll (the oplog writer across file rotations: NUN_MAX_OP_LOG_SIZE is set to 5000 by main, 20 records per file)
fn scenario_logroll(sc: &str) -> Result<Violations, String> {
    // sc = "<number of records>": written one by one with Oplog::try_write_op_log; after each, the last-operation time and the catch-up query are judged
    use nundb::disk_ops::{read_operations_since, Oplog};
    if let Some(f) = sc.strip_prefix("declutter|") { return scenario_declutter(f.parse().map_err(|_| "bad count")?); }
    if let Some(f) = sc.strip_prefix("same|") {
        // one replicate-snapshot of many databases writes a RUN of records carrying one operation id, longer than an oplog file (20 records here): the roll-overs inside the run
        // must lose none of them - a catch-up query since that id names every database of the run
        let n: u64 = f.parse().map_err(|_| "bad count")?;
        Oplog::clean_op_log_metadata_files();
        let mut v: Violations = vec![];
        let ok = catch_unwind(AssertUnwindSafe(|| {
            let mut viol: Violations = vec![];
            let mut stream = Oplog::get_log_file_append_mode();
            let _ = Oplog::try_write_op_log(&mut stream, Some(1), 0, &ReplicateOpp::Update, 1001);
            let _ = Oplog::try_write_op_log(&mut stream, Some(1), 1, &ReplicateOpp::Update, 1002);
            for i in 0..n { let _ = Oplog::try_write_op_log(&mut stream, Some(10 + i), 7, &ReplicateOpp::Snapshot, 2000); }
            let since = read_operations_since(2000);
            let all = (0..n).all(|i| since.get(&format!("{}_7", 10 + i)).map_or(false, |o| o.timestamp == 2000));
            if std::env::var("VERIF_TRACE").is_ok() && !all { eprintln!("answered {} of {}", (0..n).filter(|i| since.contains_key(&format!("{}_7", 10 + i))).count(), n); }
            for l in ["C12.all-files-after", "C12.at", "C12.every-operation-logged", "C12.never-forgets"] { chk(&mut viol, l, all); }
            chk(&mut viol, "C12.last-op-time", Oplog::last_op_time() == 2000);
            let early = read_operations_since(1001);
            chk(&mut viol, "C12.all-files-after", early.contains_key("1_0") && early.contains_key("1_1") && (0..n).all(|i| early.contains_key(&format!("{}_7", 10 + i))));
            viol
        }));
        match ok { Ok(x) => v.extend(x), Err(_) => v.push("C10.safety".into()) }
        Oplog::clean_op_log_metadata_files();
        return Ok(v);
    }
    if let Some(f) = sc.strip_prefix("discard|") {
        // the start-up step that DISCARDS the log (Oplog::clean_op_log_metadata_files, run when the valid flag is not set): afterwards no record is left, in the live file or in
        // any rotated file - records that survived would be decoded through a key map that no longer matches them
        let n: u64 = f.parse().map_err(|_| "bad count")?;
        Oplog::clean_op_log_metadata_files();
        let mut v: Violations = vec![];
        let ok = catch_unwind(AssertUnwindSafe(|| {
            let mut viol: Violations = vec![];
            { let mut stream = Oplog::get_log_file_append_mode(); for i in 1..=n { let _ = Oplog::try_write_op_log(&mut stream, Some(1), i, &ReplicateOpp::Update, 1000 + i); } }
            let before = read_operations_since(0).len();
            Oplog::clean_op_log_metadata_files();
            let after = read_operations_since(0);
            if std::env::var("VERIF_TRACE").is_ok() { eprintln!("records answered before the discard: {}, after: {}", before, after.len()); }
            chk(&mut viol, "C16.discard-removes-the-whole-log", after.is_empty() && Oplog::last_op_time() == 0);
            viol
        }));
        match ok { Ok(x) => v.extend(x), Err(_) => v.push("C10.safety".into()) }
        Oplog::clean_op_log_metadata_files();
        return Ok(v);
    }
    let n: u64 = sc.parse().map_err(|_| "bad count")?;
    Oplog::clean_op_log_metadata_files();
    let mut v: Violations = vec![];
    let ok = catch_unwind(AssertUnwindSafe(|| {
        let mut viol: Violations = vec![];
        let mut stream = Oplog::get_log_file_append_mode();
        for i in 1..=n {
            let t = 1000 + i;
            let r = Oplog::try_write_op_log(&mut stream, Some(1), i % 3, &ReplicateOpp::Update, t);
            if r.is_err() { continue; }
            let lt = Oplog::last_op_time();
            for l in ["C12.last-op-time", "C12.newest-record-is-in-the-live-file"] { chk(&mut viol, l, lt == t); }
            let since = read_operations_since(t);
            let rec = since.get(&format!("1_{}", i % 3));
            for l in ["C12.all-files-after", "C12.after", "C12.at", "C12.every-operation-logged"] { chk(&mut viol, l, rec.is_some()); }
            for l in ["C12.all-files-latest", "C12.latest"] { chk(&mut viol, l, rec.map_or(false, |o| o.timestamp == t)); }
        }
        viol
    }));
    match ok { Ok(x) => v.extend(x), Err(_) => v.push("C10.safety".into()) }
    Oplog::clean_op_log_metadata_files();
    Ok(v)
}
/// "Rotation keeps the newest records": after many roll-overs the declutter step (remove_old_db_files, reached through the cfg(nundb_verif) hook) may delete old rotated
/// files, but everything in the newest nine rotated files and the live file must still be answered
fn scenario_declutter(n_files: usize) -> Result<Violations, String> {
    use nundb::disk_ops::{read_operations_since, verif_remove_old_db_files, Oplog};
    let dir = std::env::var("NUN_DBS_DIR").map_err(|_| "NUN_DBS_DIR not set")?;
    Oplog::clean_op_log_metadata_files();
    let mut v: Violations = vec![];
    let count_rotated = || std::fs::read_dir(format!("{}/oplog", dir)).map(|rd| rd.flatten().filter(|e| e.file_name().to_string_lossy().ends_with(".op")).count()).unwrap_or(0);
    let ok = catch_unwind(AssertUnwindSafe(|| {
        let mut stream = Oplog::get_log_file_append_mode();
        let mut i: u64 = 0;
        let mut last_created: Option<std::time::SystemTime> = None;
        while count_rotated() < n_files && i < 5000 {
            i += 1;
            let before = count_rotated();
            Oplog::try_write_op_log(&mut stream, Some(1), i, &ReplicateOpp::Update, 1000 + i).unwrap();
            if count_rotated() > before {
                // a roll-over happened: in production they are minutes apart; here the next one must not share the file-timestamp tick of this one
                let newest = std::fs::read_dir(format!("{}/oplog", dir)).unwrap().flatten().filter_map(|e| e.metadata().ok().and_then(|m| m.created().ok())).max();
                let mut waited = 0;
                loop {
                    let probe = format!("{}/tick-probe", dir);
                    std::fs::write(&probe, b"x").unwrap();
                    let now = std::fs::metadata(&probe).unwrap().created().unwrap();
                    let _ = std::fs::remove_file(&probe);
                    if newest.map_or(true, |t| now > t) || waited > 200 { break; }
                    waited += 1; std::thread::sleep(std::time::Duration::from_millis(1));
                }
                last_created = newest;
            }
        }
        let _ = last_created;
        for _ in 0..5 { i += 1; Oplog::try_write_op_log(&mut stream, Some(1), i, &ReplicateOpp::Update, 1000 + i).unwrap(); }
        i
    }));
    let n = match ok { Ok(n) => n, Err(_) => { v.push("C10.safety".into()); return Ok(v); } };
    if count_rotated() < n_files { return Err("the log did not roll over".into()); }
    if catch_unwind(AssertUnwindSafe(|| verif_remove_old_db_files())).is_err() { v.push("C10.safety".into()); return Ok(v); }
    chk(&mut v, "C12.rotation-bounds-the-log", count_rotated() <= 9);
    // 20 records per file: the newest nine rotated files and the live file hold at least the last 9 * 20 records
    let first_kept = n - 150;
    let r = read_operations_since(1000 + first_kept);
    let missing: Vec<u64> = (first_kept..=n).filter(|i| !r.contains_key(&format!("1_{}", i))).collect();
    if std::env::var("VERIF_TRACE").is_ok() { eprintln!("records 1..{}, rotated files now {}, missing {:?}", n, count_rotated(), missing); }
    for l in ["C12.rotation-keeps-newest", "C12.all-files-after"] { chk(&mut v, l, missing.is_empty()); }
    chk(&mut v, "C12.last-op-time", Oplog::last_op_time() == 1000 + n);
    Oplog::clean_op_log_metadata_files();
    Ok(v)
}
fn all_logroll_scenarios() -> Vec<String> { vec!["19".into(), "21".into(), if deep() { "130".into() } else { "45".into() }, "declutter|9".into(), "declutter|12".into(), if deep() { "declutter|30".into() } else { "declutter|15".into() },
    "same|5".into(), "same|45".into(), "same|70".into(), "discard|5".into(), "discard|45".into(), "discard|130".into()] }

// ------------------------------------------------------------------ family: linktag (C07: the peer tag of a cluster link follows the LAST role the peer announced)
fn scenario_linktag(sc: &str) -> Result<Violations, String> {
    // sc = events of one authenticated peer link separated by '.':  p<name> (set-primary name)  s<name> (set-secoundary name); this node is a secondary.
    // The tag decides what the node does when the link drops (a primary that leaves starts an election, a secondary that leaves does not), so it must always be the
    // member and role of the last announcement
    let w = mk_world(0);
    w.dbs.node_state.swap(ClusterRole::Secoundary as usize, std::sync::atomic::Ordering::Relaxed);
    let mut v: Violations = vec![];
    let (mut c, mut rx) = Client::new_empty_and_receiver();
    run_cmd(&w, &mut c, &mut rx, "auth u p");
    for ev in sc.split('.').filter(|e| !e.is_empty()) {
        let (role, cmd) = if &ev[0..1] == "p" { (ClusterRole::Primary, format!("set-primary {}", &ev[1..])) } else { (ClusterRole::Secoundary, format!("set-secoundary {}", &ev[1..])) };
        let out = catch_unwind(AssertUnwindSafe(|| run_cmd(&w, &mut c, &mut rx, &cmd)));
        if out.is_err() { v.push("C10.safety".into()); return Ok(v); }
        let tag = c.cluster_member.lock().unwrap().as_ref().map(|m| (m.name.clone(), m.role));
        let ok = tag == Some((ev[1..].to_string(), role));
        for l in ["C07.link-tag-follows-last-announcement", "C07.primary-leaving-starts-election"] { chk(&mut v, l, ok); }
        // a set-primary also makes this node a secondary (it never stays or becomes primary by being told who the primary is)
        if role == ClusterRole::Primary { chk(&mut v, "C07.told-primary-is-secondary", w.dbs.get_role() == ClusterRole::Secoundary); }
    }
    Ok(v)
}
fn all_linktag_scenarios() -> Vec<String> {
    let evs = ["pB:1", "sB:1", "pC:1", "sC:1"];
    let mut out = vec![];
    fn rec(evs: &[&str], cur: &mut Vec<String>, depth: usize, out: &mut Vec<String>) {
        if !cur.is_empty() { out.push(cur.join(".")); }
        if depth == 0 { return; }
        for e in evs { cur.push(e.to_string()); rec(evs, cur, depth - 1, out); cur.pop(); }
    }
    rec(&evs, &mut vec![], 3, &mut out);
    out
}

// ------------------------------------------------------------------ family: replica (C19 / C02: the primary's replication lines, applied in its order on a secondary, leave the same value)
fn mk_dbs_rx(role: ClusterRole) -> (Arc<Databases>, Receiver<String>) {
    let (s1, r1): (Sender<String>, Receiver<String>) = channel(1000);
    let (s2, r2): (Sender<String>, Receiver<String>) = channel(1000);
    std::mem::forget(r1);
    let d = Arc::new(Databases::new("u".into(), "p".into(), "".into(), "".into(), s1, s2, HashMap::new(), 1, true));
    d.node_state.swap(role as usize, std::sync::atomic::Ordering::Relaxed);
    (d, r2)
}
const REPLICA_WRITES: [&str; 9] = ["set k a", "set k b", "set-safe k 0 c", "set-safe k 1 d", "set-safe k 5 e", "set-safe k -1 f", "increment n 2", "remove k", "set-safe k 2 g"];
fn scenario_replica(sc: &str) -> Result<Violations, String> {
    // sc = "<strategy>|<indices into REPLICA_WRITES, e.g. 0.2.2>": a client runs the writes on the primary; every line the primary puts on its replication channel is fed, in
    // order, to a secondary (as the authenticated peer link does); afterwards both nodes must hold the same value for k and n
    let p: Vec<&str> = sc.split('|').collect();
    let idx: Vec<usize> = p[1].split('.').filter(|x| !x.is_empty()).map(|x| x.parse().unwrap_or(99)).collect();
    if idx.iter().any(|i| *i >= REPLICA_WRITES.len()) { return Err("bad index".into()); }
    let (pd, mut prx) = mk_dbs_rx(ClusterRole::Primary);
    let (sd, mut srx) = mk_dbs_rx(ClusterRole::Secoundary);
    let pw = World { dbs: pd }; let sw = World { dbs: sd };
    let (mut pc, mut pcrx) = Client::new_empty_and_receiver();
    let (mut peer, mut peerrx) = Client::new_empty_and_receiver();
    let mut v: Violations = vec![];
    run_cmd(&sw, &mut peer, &mut peerrx, "auth u p");
    run_cmd(&sw, &mut peer, &mut peerrx, "set-primary p:1");   // the link is the primary's: a secondary creates databases only when its primary says so
    let ok = catch_unwind(AssertUnwindSafe(|| {
        let mut cmds: Vec<String> = vec!["auth u p".into(), format!("create-db d tok {}", p[0]), "use-db d tok".into()];
        for i in &idx { cmds.push(REPLICA_WRITES[*i].to_string()); }
        for c in &cmds {
            run_cmd(&pw, &mut pc, &mut pcrx, c);
            for line in drain(&mut prx) { let r = run_cmd(&sw, &mut peer, &mut peerrx, &line); if std::env::var("VERIF_TRACE").is_ok() { eprintln!("{:?} -> {:?}", line, r); } }
        }
    }));
    if ok.is_err() { v.push("C10.safety".into()); return Ok(v); }
    drain(&mut srx);
    let read = |w: &World, k: &str| -> Option<(String, bool)> { let m = w.dbs.map.read().unwrap(); m.get("d").and_then(|db| db.get_value(k.to_string())).map(|e| (e.value, e.state == ValueStatus::Deleted)) };
    for k in ["k", "n"] {
        let a = read(&pw, k); let b = read(&sw, k);
        // a removed key is a tombstone on one node and may be absent on the other: compare what a client can read
        let live = |x: &Option<(String, bool)>| -> Option<String> { match x { Some((val, false)) => Some(val.clone()), _ => None } };
        let okk = live(&a) == live(&b);
        if std::env::var("VERIF_TRACE").is_ok() && !okk { eprintln!("key {}: primary {:?} secondary {:?}", k, a, b); }
        chk(&mut v, "C19.replicas-agree", okk || p[0] != "newer");
        chk(&mut v, "C02.replicas-agree", okk || p[0] != "none");
        chk(&mut v, "C05.live-replication-converges", okk);
        chk(&mut v, "C04.copies-applied-in-order-agree", okk);
        // ... and, without a strategy (the resolution of `newer` compares node-local op ids), the same version
        if okk && p[0] == "none" && live(&a).is_some() {
            let ver = |w: &World| -> Option<i32> { let m = w.dbs.map.read().unwrap(); m.get("d").and_then(|db| db.get_value(k.to_string())).map(|e| e.version) };
            if std::env::var("VERIF_TRACE").is_ok() && ver(&pw) != ver(&sw) { eprintln!("key {}: primary version {:?} secondary {:?}", k, ver(&pw), ver(&sw)); }
            chk(&mut v, "C04.copies-applied-in-order-agree-on-versions", ver(&pw) == ver(&sw));
        }
    }
    Ok(v)
}
fn all_replica_scenarios() -> Vec<String> {
    let mut hist = vec![];
    fn rec(cur: &mut Vec<String>, depth: usize, out: &mut Vec<String>) {
        if !cur.is_empty() { out.push(cur.join(".")); }
        if depth == 0 { return; }
        for e in 0..REPLICA_WRITES.len() { cur.push(e.to_string()); rec(cur, depth - 1, out); cur.pop(); }
    }
    rec(&mut vec![], if deep() { 4 } else { 3 }, &mut hist);
    let mut out = vec![];
    for h in hist { for st in ["newer", "none"] { out.push(format!("{}|{}", st, h)); } }
    out
}

// ------------------------------------------------------------------ family: traffic (C14: what ONE handler step hands to the links of other nodes)
const TRAFFIC_CLIENT: [&str; 7] = ["set k v", "set-safe k 1 v", "set-safe k 9 v", "increment cnt 1", "remove k", "get k", "set $$secret x"];
const TRAFFIC_PEER: [&str; 7] = ["replicate d k -1 v", "replicate d k 1 v", "replicate-increment d cnt 1", "replicate-remove d k", "rp 77 replicate d k -1 v", "rp 77 replicate-remove d k", "ack 77 s1:1"];
fn scenario_traffic(sc: &str) -> Result<Violations, String> {
    // sc = "<role S|P|U>|<strategy>|<arbiter registered 0|1>|<origin c|p>|<index>":  this node (me:1) has role S / P / U; its member table names me:1, p:1 (marked Primary, unless
    // this node is the primary) and s1:1, s2:1 (marked Secoundary), every other member with a readable link.  Database d (strategy as given) holds k at version 3 and cnt.
    // origin c: a client session (use-db d tok) sends TRAFFIC_CLIENT[index]; origin p: an authenticated peer link delivers TRAFFIC_PEER[index].  Whatever the command put on this
    // node's replication channel is then handled by ONE run of the real replication thread.  Counted: the lines on every member link and on the session's own channel.
    use nundb::disk_ops::{snapshot_keys, Oplog};
    use nundb::replication_ops::start_replication_thread;
    let p: Vec<&str> = sc.split('|').collect();
    // "cluster|<strategy>|<P|S: the node the client talks to>|<command>": two nodes wired in process (see scenario_traffic_cluster)
    if p.len() == 4 && p[0] == "cluster" { return scenario_traffic_cluster(p[1], &[(p[2], p[3])]); }
    if p.len() == 6 && p[0] == "cluster" { return scenario_traffic_cluster(p[1], &[(p[2], p[3]), (p[4], p[5])]); }
    if p.len() == 8 && p[0] == "cluster" { return scenario_traffic_cluster(p[1], &[(p[2], p[3]), (p[4], p[5]), (p[6], p[7])]); }
    if p.len() != 5 { return Err("bad scenario".into()); }
    let idx: usize = p[4].parse().map_err(|_| "bad index")?;
    let dir = std::env::var("NUN_DBS_DIR").map_err(|_| "NUN_DBS_DIR not set")?;
    Oplog::clean_op_log_metadata_files();
    let _ = std::fs::remove_file(format!("{}/keys-nun.keys", dir));
    let (s1, r1): (Sender<String>, Receiver<String>) = channel(1000);
    let (s2, mut rrx): (Sender<String>, Receiver<String>) = channel(1000);
    std::mem::forget(r1);
    let dbs = Arc::new(Databases::new("u".into(), "p".into(), "0.0.0.0:1".into(), "me:1".into(), s1, s2, HashMap::new(), 1, true));
    dbs.node_state.swap(ClusterRole::Primary as usize, std::sync::atomic::Ordering::Relaxed);
    let w = World { dbs: dbs.clone() };
    let (mut admin, mut arx) = Client::new_empty_and_receiver();
    for c in ["auth u p".to_string(), format!("create-db d tok {}", p[1]), "use-db d tok".to_string(), "set k a".into(), "set k b".into(), "set k c".into(), "set k d".into(), "set cnt 3".into()] { run_cmd(&w, &mut admin, &mut arx, &c); }
    let (mut arbiter, mut arbrx) = Client::new_empty_and_receiver();
    if p[2] == "1" { run_cmd(&w, &mut arbiter, &mut arbrx, "use-db d tok"); run_cmd(&w, &mut arbiter, &mut arbrx, "arbiter"); }
    snapshot_keys(&dbs);
    drain(&mut rrx);
    // T: a secondary whose member table names NO primary (the window after a lost election, before the winner's set-primary arrives); D: the primary with one more secondary
    // whose link is dead (its receiver is gone: every try_send on it fails)
    let role = match p[0] { "S" | "T" => ClusterRole::Secoundary, "P" | "D" => ClusterRole::Primary, _ => ClusterRole::StartingUp };
    let (l1, mut m1): (Sender<String>, Receiver<String>) = channel(1000);
    let (l2, mut m2): (Sender<String>, Receiver<String>) = channel(1000);
    let (lp, mut mp): (Sender<String>, Receiver<String>) = channel(1000);
    let is_p = p[0] == "P" || p[0] == "D";
    if !is_p && p[0] != "T" { dbs.add_cluster_member(ClusterMember { name: "p:1".into(), role: ClusterRole::Primary, sender: Some(lp) }); }
    dbs.add_cluster_member(ClusterMember { name: "me:1".into(), role: if is_p { ClusterRole::Primary } else { ClusterRole::Secoundary }, sender: None });
    if p[0] == "D" { let (ld, dead_rx): (Sender<String>, Receiver<String>) = channel(10); drop(dead_rx); dbs.add_cluster_member(ClusterMember { name: "dead:1".into(), role: ClusterRole::Secoundary, sender: Some(ld) }); }
    dbs.add_cluster_member(ClusterMember { name: "s1:1".into(), role: ClusterRole::Secoundary, sender: Some(l1) });
    dbs.add_cluster_member(ClusterMember { name: "s2:1".into(), role: ClusterRole::Secoundary, sender: Some(l2) });
    dbs.node_state.swap(role as usize, std::sync::atomic::Ordering::Relaxed);
    let mut v: Violations = vec![];
    let (mut c, mut crx) = Client::new_empty_and_receiver();
    let cmd = if p[3] == "c" {
        if idx >= TRAFFIC_CLIENT.len() { return Err("bad index".into()); }
        run_cmd(&w, &mut c, &mut crx, "use-db d tok"); TRAFFIC_CLIENT[idx]
    } else {
        if idx >= TRAFFIC_PEER.len() { return Err("bad index".into()); }
        c.auth.swap(true, std::sync::atomic::Ordering::Relaxed); TRAFFIC_PEER[idx]
    };
    if cmd.starts_with("ack") { dbs.register_pending_opp(77, "replicate d k -1 v".into(), &"s1:1".to_string()); dbs.register_pending_opp(77, "replicate d k -1 v".into(), &"s2:1".to_string()); }
    drain(&mut rrx); drain(&mut m1); drain(&mut m2); drain(&mut mp);
    let out = catch_unwind(AssertUnwindSafe(|| run_cmd(&w, &mut c, &mut crx, cmd)));
    let (_r, back) = match out { Ok(x) => x, Err(_) => { v.push("C10.safety".into()); return Ok(v); } };
    // ---- the command itself: at most one line on the replication channel, at most one forward to the primary (none when a peer delivered the command)
    let queued = drain(&mut rrx);
    let fwd = drain(&mut mp);
    for l in ["C14.one-line-per-command", "C05.one-line-per-command"] { chk(&mut v, l, queued.len() <= 1); }
    chk(&mut v, "C14.at-most-one-forward-per-write", fwd.len() <= 1);
    chk(&mut v, "C14.primary-forwards-nothing", !is_p || fwd.is_empty());
    if p[3] == "p" { chk(&mut v, "C14.peer-messages-are-not-forwarded", fwd.is_empty()); }
    // a handler never hands anything to the link of a secondary itself: copies leave through the replication thread only
    let direct = drain(&mut m1).len() + drain(&mut m2).len();
    chk(&mut v, "C14.handlers-hand-copies-to-the-replication-thread-only", direct == 0);
    // ---- the session's own channel: a wrapped copy is acknowledged exactly once, an acknowledgement or a relayed write is answered with nothing of the kind
    let acks = back.iter().filter(|l| l.starts_with("ack ")).count();
    if cmd.starts_with("rp ") {
        chk(&mut v, "C14.copy-is-acknowledged-once-and-applied-once", acks == 1 && back.iter().any(|l| l.starts_with("ack 77 me:1")));
    } else { chk(&mut v, "C14.only-copies-are-acknowledged", acks == 0); }
    if cmd.starts_with("ack") { chk(&mut v, "C14.ack-ends-the-exchange", queued.is_empty() && fwd.is_empty()); }
    // ---- the replication thread takes what was queued: a secondary hands nothing to anybody; the primary one copy per secondary; a starting node one per other member
    let ok = catch_unwind(AssertUnwindSafe(|| {
        let (mut tx, rx): (Sender<String>, Receiver<String>) = channel(100);
        for q in &queued { tx.try_send(q.clone()).unwrap(); }
        tx.try_send("exit".to_string()).unwrap();
        futures::executor::block_on(start_replication_thread(rx, dbs.clone()));
    }));
    if ok.is_err() { v.push("C10.safety".into()); return Ok(v); }
    let (g1, g2, gp) = (drain(&mut m1).len(), drain(&mut m2).len(), drain(&mut mp).len());
    // the replication thread only takes lines OFF its queue: whatever it could or could not hand over, it puts nothing back (a re-queued line would be fanned out again, to everybody)
    let requeued = drain(&mut rrx);
    for l in ["C14.replication-thread-queues-nothing", "C14.one-copy-per-secondary"] { chk(&mut v, l, requeued.is_empty()); }
    match p[0] {
        "S" | "T" => chk(&mut v, "C14.secondary-never-fans-out", g1 + g2 + gp == 0),
        "P" | "D" => { chk(&mut v, "C14.one-copy-per-secondary", g1 <= queued.len() && g2 <= queued.len()); chk(&mut v, "C14.primary-fans-out-to-secondaries-only", gp == 0); }
        _ => chk(&mut v, "C14.starting-node-copies-once-per-other-member", g1 <= queued.len() && g2 <= queued.len() && gp <= queued.len()),
    }
    // non-vacuity of the wiring: an accepted client write on the primary does reach both secondaries
    if is_p && p[3] == "c" && idx == 0 && !(g1 == 1 && g2 == 1) { return Err("links silent".into()); }
    if p[0] == "S" && p[3] == "c" && idx == 0 && fwd.len() != 1 { return Err("primary link silent".into()); }
    std::mem::forget(arx); std::mem::forget(arbrx);
    Oplog::clean_op_log_metadata_files();
    Ok(v)
}

/// C14, two nodes wired in process: a primary P (its REAL replication thread does the fan-out) and a secondary S; every line a node hands to the other's link is delivered through
/// process_request on an authenticated peer session whose own channel leads back.  One client command is issued, then whole rounds of deliveries are run: the exchange must die out.
fn scenario_traffic_cluster(strategy: &str, steps: &[(&str, &str)]) -> Result<Violations, String> {
    use nundb::disk_ops::{snapshot_keys, Oplog};
    use nundb::replication_ops::start_replication_thread;
    let dir = std::env::var("NUN_DBS_DIR").map_err(|_| "NUN_DBS_DIR not set")?;
    Oplog::clean_op_log_metadata_files();
    let _ = std::fs::remove_file(format!("{}/keys-nun.keys", dir));
    let mk = |me: &str, role: ClusterRole| -> (Arc<Databases>, Receiver<String>) {
        let (s1, r1): (Sender<String>, Receiver<String>) = channel(1000);
        let (s2, r2): (Sender<String>, Receiver<String>) = channel(1000);
        std::mem::forget(r1);
        let d = Arc::new(Databases::new("u".into(), "p".into(), format!("0.0.0.0:{}", me.len()), me.into(), s1, s2, HashMap::new(), 1, true));
        d.node_state.swap(ClusterRole::Primary as usize, std::sync::atomic::Ordering::Relaxed);
        let w = World { dbs: d.clone() };
        let (mut admin, mut arx) = Client::new_empty_and_receiver();
        for c in ["auth u p".to_string(), format!("create-db d tok {}", strategy), "use-db d tok".to_string(), "set k a".into(), "set k b".into(), "set k c".into(), "set cnt 3".into()] { run_cmd(&w, &mut admin, &mut arx, &c); }
        std::mem::forget(arx);
        d.node_state.swap(role as usize, std::sync::atomic::Ordering::Relaxed);
        (d, r2)
    };
    let (pd, mut p_queue) = mk("p:1", ClusterRole::Primary);
    let (sd, mut s_queue) = mk("s:1", ClusterRole::Secoundary);
    snapshot_keys(&pd);
    drain(&mut p_queue); drain(&mut s_queue);
    let (to_s, mut link_ps): (Sender<String>, Receiver<String>) = channel(1000);   // what P hands to S's link
    let (to_p, mut link_sp): (Sender<String>, Receiver<String>) = channel(1000);   // what S hands to P's link
    pd.add_cluster_member(ClusterMember { name: "p:1".into(), role: ClusterRole::Primary, sender: None });
    pd.add_cluster_member(ClusterMember { name: "s:1".into(), role: ClusterRole::Secoundary, sender: Some(to_s) });
    sd.add_cluster_member(ClusterMember { name: "p:1".into(), role: ClusterRole::Primary, sender: Some(to_p) });
    sd.add_cluster_member(ClusterMember { name: "s:1".into(), role: ClusterRole::Secoundary, sender: None });
    let pw = World { dbs: pd.clone() }; let sw = World { dbs: sd.clone() };
    // the two ends of the link: P's session for what S sends (its answers go to S), S's session for what P sends (its answers - the acks - go to P)
    let (mut at_p, mut back_to_s) = Client::new_empty_and_receiver(); at_p.auth.swap(true, std::sync::atomic::Ordering::Relaxed);
    let (mut at_s, mut back_to_p) = Client::new_empty_and_receiver(); at_s.auth.swap(true, std::sync::atomic::Ordering::Relaxed);
    // the primary announced itself over its link when the cluster formed: S's end of the link is tagged "the primary is at the other end"
    run_cmd(&sw, &mut at_s, &mut back_to_p, "set-primary p:1");
    drain(&mut s_queue); drain(&mut link_sp);
    let mut v: Violations = vec![];
    let ok = catch_unwind(AssertUnwindSafe(|| {
        let mut worst: Vec<usize> = vec![];
        for (origin, cmd) in steps {
        let (mut c, mut crx) = Client::new_empty_and_receiver();
        let w = if *origin == "P" { &pw } else { &sw };
        run_cmd(w, &mut c, &mut crx, "auth u p"); run_cmd(w, &mut c, &mut crx, "use-db d tok");
        run_cmd(w, &mut c, &mut crx, cmd);
        let mut per_round: Vec<usize> = vec![];
        for _round in 0..8 {
            // P's replication thread takes what P queued and hands the copies to S's link
            let queued = drain(&mut p_queue);
            if !queued.is_empty() {
                let (mut tx, rx): (Sender<String>, Receiver<String>) = channel(1000);
                for q in &queued { tx.try_send(q.clone()).unwrap(); }
                tx.try_send("exit".to_string()).unwrap();
                futures::executor::block_on(start_replication_thread(rx, pd.clone()));
            }
            drain(&mut s_queue);   // a secondary's replication thread only logs (C14.secondary-never-fans-out, decided elsewhere)
            let copies = drain(&mut link_ps);
            for l in &copies { run_cmd(&sw, &mut at_s, &mut back_to_p, l); }
            let forwards = drain(&mut link_sp);
            for l in &forwards { run_cmd(&pw, &mut at_p, &mut back_to_s, l); }
            let acks: Vec<String> = drain(&mut back_to_p).into_iter().filter(|l| l.starts_with("ack ")).collect();
            for l in &acks { run_cmd(&pw, &mut at_p, &mut back_to_s, l.trim()); }
            drain(&mut back_to_s);
            per_round.push(copies.len() + forwards.len() + acks.len());
            if copies.is_empty() && forwards.is_empty() && acks.is_empty() { break; }
        }
        if per_round.len() > worst.len() || per_round.last() != Some(&0) { worst = per_round; }
        if worst.last() != Some(&0) { break; }
        }
        worst
    }));
    let per_round = match ok { Ok(x) => x, Err(_) => { v.push("C10.safety".into()); return Ok(v); } };
    if std::env::var("VERIF_TRACE").is_ok() { eprintln!("messages per round: {:?}", per_round); }
    // one client operation: a bounded burst (a forward, a copy, an acknowledgement - a few rounds at most), then silence
    chk(&mut v, "C14.bounded-burst-then-silence", per_round.last() == Some(&0) && per_round.len() <= 4);
    // ... and once it is silent both nodes read the same value for the keys the command could touch (a remove accepted by a secondary is never handed to the primary: observed in
    // family forward, judged by no claimed property - left out here)
    if per_round.last() == Some(&0) && !steps.iter().any(|(origin, cmd)| *origin == "S" && cmd.starts_with("remove")) {
        let read = |w: &World, k: &str| -> Option<String> { let m = w.dbs.map.read().unwrap(); m.get("d").and_then(|db| db.get_value(k.to_string())).and_then(|e| if e.state == ValueStatus::Deleted { None } else { Some(e.value) }) };
        for k in ["k", "cnt"] {
            let same = read(&pw, k) == read(&sw, k);
            if std::env::var("VERIF_TRACE").is_ok() && !same { eprintln!("key {}: primary {:?} secondary {:?}", k, read(&pw, k), read(&sw, k)); }
            if strategy == "newer" { chk(&mut v, "C19.replicas-agree", same); }
            if strategy == "none" { chk(&mut v, "C02.replicas-agree", same); }
            if strategy == "arbiter" && steps.iter().all(|(_, cmd)| cmd.starts_with("resolve")) { chk(&mut v, "C13.resolution-reaches-every-node", same); }
        }
    }
    // C04 (bounded stand-in): once the exchange has died out, every key of every database reads the same on both nodes - value, live / removed, and version
    if per_round.last() == Some(&0) {
        let dump = |w: &World| -> Vec<(String, String, Option<(String, i32)>)> {
            let m = w.dbs.map.read().unwrap(); let mut out = vec![];
            for (dn, db) in m.iter() { if dn == "$admin" { continue; } let mm = db.map.read().unwrap(); for (k, e) in mm.iter() {
                if k == "$connections" { continue; }
                out.push((dn.clone(), k.clone(), if e.state == ValueStatus::Deleted { None } else { Some((e.value.clone(), e.version)) })); } }
            out.retain(|x| x.2.is_some()); out.sort(); out };
        let (a, b) = (dump(&pw), dump(&sw));
        let names = |d: &Vec<(String, String, Option<(String, i32)>)>| -> Vec<(String, String)> { d.iter().map(|x| (x.0.clone(), x.1.clone())).collect() };
        let vals = |d: &Vec<(String, String, Option<(String, i32)>)>| -> Vec<(String, String, String)> { d.iter().map(|x| (x.0.clone(), x.1.clone(), x.2.clone().unwrap().0)).collect() };
        if std::env::var("VERIF_TRACE").is_ok() && a != b { eprintln!("P: {:?}\nS: {:?}", a, b); }
        chk(&mut v, "C04.nodes-agree-on-live-keys", names(&a) == names(&b));
        if names(&a) == names(&b) { chk(&mut v, "C04.nodes-agree-on-values", vals(&a) == vals(&b)); }
        if vals(&a) == vals(&b) {
            // conflict notices ($conflicts_<key>_<id>) are judged under a label of their own: a resolution reaches a secondary twice (the resolve line and the notice's own write line)
            let plain = |d: &Vec<(String, String, Option<(String, i32)>)>| -> Vec<(String, String, Option<(String, i32)>)> { d.iter().filter(|x| !x.1.starts_with("$conflicts_")).cloned().collect() };
            chk(&mut v, "C04.nodes-agree-on-versions", plain(&a) == plain(&b));
            chk(&mut v, "C04.conflict-notices-agree-on-versions", a == b || plain(&a) != plain(&b));
        }
    }
    Oplog::clean_op_log_metadata_files();
    Ok(v)
}
fn all_traffic_scenarios() -> Vec<String> {
    let mut out = vec![];
    for role in ["S", "P", "U", "T", "D"] { for st in ["none", "newer", "arbiter"] { for arb in ["0", "1"] {
        if (role == "T" || role == "D") && st != "none" { continue; }
        if arb == "1" && st != "arbiter" { continue; }
        for i in 0..TRAFFIC_CLIENT.len() { out.push(format!("{}|{}|{}|c|{}", role, st, arb, i)); }
        for i in 0..TRAFFIC_PEER.len() { out.push(format!("{}|{}|{}|p|{}", role, st, arb, i)); }
    } } }
    for st in ["none", "newer", "arbiter"] { for origin in ["P", "S"] { for cmd in ["set k v", "set-safe k 1 v", "increment cnt 1", "remove k", "resolve 5 d k 3 v", "create-user eve et", "snapshot true", "snapshot false", "snapshot true d", "set-permissions eve r k*"] {
        out.push(format!("cluster|{}|{}|{}", st, origin, cmd));
    } } }
    // two client commands, each on either node, the exchange of the first run to its end before the second is issued
    let two = ["set k v", "set-safe k 1 w", "set-safe k 9 x", "increment cnt 1", "remove k", "resolve 5 d k 3 y"];
    for st in ["none", "newer", "arbiter"] { for o1 in ["P", "S"] { for c1 in two { for o2 in ["P", "S"] { for c2 in two {
        out.push(format!("cluster|{}|{}|{}|{}|{}", st, o1, c1, o2, c2));
        for o3 in ["P", "S"] { for c3 in two { out.push(format!("cluster|{}|{}|{}|{}|{}|{}|{}", st, o1, c1, o2, c2, o3, c3)); } }
    } } } } }
    out
}

// ------------------------------------------------------------------ family: permchange (C09: a permission list changed while the user's session is open)
const PC_USERS: [(&str, &str); 3] = [("usr", "use-db d usr ut"), ("nolist", "use-db d nolist nt"), ("star", "use-db d star st")];
const PC_LISTS: [&str; 4] = ["r pub*", "w sec*|r sea", "rwix *", "i cnt"];
const PC_CMDS: [(&str, &str, char); 7] = [("get secret", "secret", 'r'), ("get public1", "public1", 'r'), ("set secret x", "secret", 'w'), ("set public1 y", "public1", 'w'),
    ("increment cnt 1", "cnt", 'i'), ("remove public1", "public1", 'x'), ("get sea", "sea", 'r')];
fn scenario_permchange(sc: &str) -> Result<Violations, String> {
    // sc = "<user idx>|<new list idx>|<first cmd idx>|<second cmd idx>": the user logs in and runs the first command (decided by the list stored then), an administrator
    // replaces the user's permission list, the user runs the second command: it must be decided by the list stored NOW
    let p: Vec<usize> = sc.split('|').map(|x| x.parse().unwrap_or(99)).collect();
    // list index PC_LISTS.len() stands for REVOKED: the user's permission key had reached the disk (snapshot) and the administrator removes it - it stays in memory as a tombstone;
    // a user without a permission list reaches no key
    let revoked = p.len() == 4 && p[1] == PC_LISTS.len();
    if p.len() != 4 || p[0] >= PC_USERS.len() || (p[1] >= PC_LISTS.len() && !revoked) || p[2] >= PC_CMDS.len() || p[3] >= PC_CMDS.len() { return Err("bad scenario".into()); }
    let (user, login) = PC_USERS[p[0]];
    let w = mk_world(0);
    let mut v: Violations = vec![];
    let (mut c, mut rx) = Client::new_empty_and_receiver();
    let (mut admin, mut arx) = Client::new_empty_and_receiver();
    for a in ["auth u p", "use-db d tok"] { run_cmd(&w, &mut admin, &mut arx, a); }
    run_cmd(&w, &mut c, &mut rx, login);
    let out = catch_unwind(AssertUnwindSafe(|| run_cmd(&w, &mut c, &mut rx, PC_CMDS[p[2]].0)));
    if out.is_err() { v.push("C10.safety".into()); return Ok(v); }
    if revoked {
        let pk = format!("$$permission_${}", user);
        let had = { let m = w.dbs.map.read().unwrap(); let db = m.get("d").unwrap(); match db.get_value(pk.clone()) { Some(val) => { db.set_value_as_ok(&pk, &val, 21, 22, val.opp_id); true } None => false } };
        let (r, _) = run_cmd(&w, &mut admin, &mut arx, &format!("remove {}", pk));
        if is_err(&r) && had { return Err("remove of the permission key refused".into()); }
    } else {
        let (r, _) = run_cmd(&w, &mut admin, &mut arx, &format!("set-permissions {} {}", user, PC_LISTS[p[1]]));
        if is_err(&r) { return Err("set-permissions refused".into()); }
    }
    let (cmd, key, kind) = PC_CMDS[p[3]];
    let out = catch_unwind(AssertUnwindSafe(|| run_cmd(&w, &mut c, &mut rx, cmd)));
    let (r, _msgs) = match out { Ok(x) => x, Err(_) => { v.push("C10.safety".into()); return Ok(v); } };
    let allowed = if revoked { false } else { ref_list_grants(PC_LISTS[p[1]], key, kind) };
    let denied = matches!(&r, Response::Error { msg } if msg == "permission denied\n");
    for l in ["C09.list-decides", "C09.permission-gate", "C09.current-list-decides"] { chk(&mut v, l, if allowed { !denied } else { is_err(&r) }); }
    Ok(v)
}
fn all_permchange_scenarios() -> Vec<String> {
    let mut out = vec![];
    for u in 0..PC_USERS.len() { for l in 0..=PC_LISTS.len() { for a in 0..PC_CMDS.len() { for b in 0..PC_CMDS.len() { out.push(format!("{}|{}|{}|{}", u, l, a, b)); } } } }
    out
}

// ------------------------------------------------------------------ family: arbiter queue (C13 multi-step)
/// a key in conflict and the notices queued for its arbiter survive a snapshot and a restart (they are ordinary records of the database)
fn scenario_arbiter_restart(mode: &str, nconf: usize) -> Result<Violations, String> {
    use nundb::disk_ops::snapshot_all_pendding_dbs;
    use nundb::storage::disk::{create_db_from_file_name, file_name_from_db_name};
    let dir = std::env::var("NUN_DBS_DIR").map_err(|_| "NUN_DBS_DIR not set")?;
    let name = "arbdb".to_string();
    for suf in [".keys", ".values", ".keys.old", ".values.old"] { let _ = std::fs::remove_file(format!("{}{}", file_name_from_db_name(&name), suf)); }
    let _ = std::fs::remove_file(format!("{}/{}-nun.madadata", dir, name));
    let dbs = mk_dbs();
    let w = World { dbs: dbs.clone() };
    let (mut c, mut rx) = Client::new_empty_and_receiver();
    for cmd in ["auth u p", "create-db arbdb tok arbiter", "use-db arbdb tok", "set k v0", "set k v1", "set calm c"] { run_cmd(&w, &mut c, &mut rx, cmd); }
    // mode "Sc" / "Rc": the key is CLEAN on disk when the conflict arrives (a snapshot was taken after its last write): the in-conflict mark must be written by the next snapshot all the same
    let clean_first = mode.ends_with('c');
    let mode = &mode[0..1];
    if clean_first { dbs.to_snapshot.write().unwrap().push((name.clone(), false)); snapshot_all_pendding_dbs(&dbs); }
    let mut v: Violations = vec![];
    let (mut arb0, mut arx0) = Client::new_empty_and_receiver();
    for cmd in ["use-db arbdb tok", "arbiter"] { run_cmd(&w, &mut arb0, &mut arx0, cmd); }
    for i in 0..nconf { run_cmd(&w, &mut c, &mut rx, &format!("set-safe k 0 c{}", i)); }
    let state = |dbs: &Arc<Databases>| -> Vec<(String, String, i32)> {
        let m = dbs.map.read().unwrap(); let db = m.get("arbdb").unwrap(); let data = db.map.read().unwrap();
        let mut out: Vec<(String, String, i32)> = data.iter().filter(|(k, e)| e.state != ValueStatus::Deleted && k.as_str() != "$connections").map(|(k, e)| (k.clone(), e.value.clone(), e.version)).collect();
        out.sort(); out };
    let before = state(&dbs);
    if !before.iter().any(|(k, val, ver)| k == "k" && val == "v1" && *ver == MARK) { return Err("the key did not get into conflict".into()); }
    let ok = catch_unwind(AssertUnwindSafe(|| {
        dbs.to_snapshot.write().unwrap().push((name.clone(), mode == "R"));
        snapshot_all_pendding_dbs(&dbs);
        let (db, _) = create_db_from_file_name(&format!("{}-nun.data.keys", name), &dbs);
        dbs.map.write().unwrap().insert(name.clone(), db);
    }));
    if ok.is_err() { v.push("C10.safety".into()); return Ok(v); }
    let after = state(&dbs);
    for l in ["C13.conflict-survives-restart", "C13.keep-old", "C06.loader-decodes-image", "C06.restore-is-snapshot"] { chk(&mut v, l, after == before); }
    // an arbiter registering after the restart is sent every unresolved notice
    let (mut arb, mut arx) = Client::new_empty_and_receiver();
    run_cmd(&w, &mut arb, &mut arx, "use-db arbdb tok");
    drain(&mut arx);
    let (_, notices) = run_cmd(&w, &mut arb, &mut arx, "arbiter");
    if std::env::var("VERIF_TRACE").is_ok() { eprintln!("state after: {:?}\nnotices: {:?}", after, notices); }
    for l in ["C13.redeliver", "C13.conflict-survives-restart"] { chk(&mut v, l, notices.iter().filter(|n| n.starts_with("resolve ")).count() == nconf); }
    Ok(v)
}
fn scenario_arbiter(sc: &str) -> Result<Violations, String> {
    // sc = "<number of conflicting writes 1..3>|<resolution order as digits, e.g. 021>"   or   "restart|<S|R>|<number of conflicting writes>"
    let p: Vec<&str> = sc.split('|').collect();
    if p[0] == "restart" { return scenario_arbiter_restart(p[1], p[2].parse().map_err(|_| "bad")?); }
    let nconf: usize = p[0].parse().map_err(|_| "bad")?;
    let order: Vec<usize> = p[1].chars().map(|c| c.to_digit(10).unwrap() as usize).collect();
    let dbs = mk_dbs();
    let (db, _rx) = mk_db(ConsensuStrategy::Arbiter, None);
    let (arb, mut arx) = Client::new_empty_and_receiver();
    db.register_arbiter(&arb);
    // variant `away`: the arbiter registered once and has left (disconnect = unwatch-all) before the conflicts happen; they must be kept for the next arbiter
    let away = p.len() > 2 && p[2] == "away";
    if away { unwatch_all(&arb.sender, &db); }
    let mut v: Violations = vec![];
    set_key_value("k".into(), "v0".into(), -1, &db, &dbs);
    set_key_value("k".into(), "v1".into(), -1, &db, &dbs);
    for i in 0..nconf { let r = set_key_value("k".into(), format!("c{}", i), 0, &db, &dbs); chk(&mut v, "C13.set-arbiter", is_err(&r)); }
    chk(&mut v, "C13.keep-old", db.get_value("k".into()).map_or(false, |e| e.value == "v1" && e.version == MARK));
    let mut notices = drain(&mut arx);
    chk(&mut v, "C13.deliver", notices.len() == if away { 0 } else { nconf });
    // a second arbiter registering now is sent exactly the unresolved notices (all of them, nothing is resolved yet)
    let (arb2, mut arx2) = Client::new_empty_and_receiver();
    db.register_arbiter(&arb2);
    let again = drain(&mut arx2);
    if away {
        chk(&mut v, "C13.redeliver", again.len() == nconf); chk(&mut v, "C13.record", again.len() == nconf);
        if again.len() != nconf { return Ok(v); }
        notices = again.clone();
    }
    let mut a_sorted = again.clone(); a_sorted.sort(); let mut n_sorted = notices.clone(); n_sorted.sort();
    chk(&mut v, "C13.redeliver", a_sorted == n_sorted);
    // the arbiter answers each notice echoing its op id and version:  resolve <opp_id> <db> <version> <key> <old> <new>
    let parsed: Vec<(u64, i32, String)> = notices.iter().map(|n| { let f: Vec<&str> = n.split(' ').collect(); (f[1].parse().unwrap(), f[3].parse().unwrap(), f[6..].join(" ")) }).collect();
    // a write that conflicts while the key is already waiting is chained behind the NEWEST notice of the key's queue: its notice names that notice's key as what it follows (an
    // arbiter that resolves in order loses none in between)
    if !away {
        for i in 1..notices.len() {
            let f: Vec<&str> = notices[i].split(' ').collect();
            let want = format!("$conflicts_k_{}", parsed[i - 1].0);
            if std::env::var("VERIF_TRACE").is_ok() && f.get(5) != Some(&want.as_str()) { eprintln!("notice {} follows {:?}, expected {}", i, f.get(5), want); }
            chk(&mut v, "C13.queued-conflict-follows-the-newest-notice", f.get(5) == Some(&want.as_str()));
        }
    }
    drain(&mut arx);
    for (step, idx) in order.iter().enumerate() {
        if *idx >= parsed.len() { continue; }
        let (opp_id, version, value) = parsed[*idx].clone();
        let mut ch = Change::new("k".into(), value.clone(), version);
        ch.opp_id = opp_id;
        let _ = db.resolve_conflit(ch, &dbs);
        // how many of the queued conflicts are still unanswered (an answer may arrive twice - two arbiters, or a notice re-sent at registration: the repeat settles nothing new)
        let answered: std::collections::HashSet<usize> = order[..=step].iter().cloned().filter(|i| *i < parsed.len()).collect();
        let remaining = parsed.len() - answered.len();
        let e = db.get_value("k".into()).unwrap();
        if remaining > 0 {
            // something is still pending: the key must stay in conflict (later writes keep queueing)
            chk(&mut v, "C13.writable-again", e.version == MARK);
        } else {
            chk(&mut v, "C13.writable-again", e.version != MARK && e.value == value);
            chk(&mut v, "C13.resolved-value", e.value == value);
        }
    }
    // once everything is resolved a newly registered arbiter is sent nothing, and the resolved notices are gone
    if order.iter().cloned().collect::<std::collections::HashSet<usize>>().len() == nconf {
        // a writer that read the key BEFORE the conflict (version 1) and missed the resolution is not applied silently: its write conflicts again (queued for the arbiter), the key
        // keeps the arbiter's decision
        if !away {
            let decided = db.get_value("k".into()).map(|e| e.value).unwrap_or_default();
            let late = set_key_value("k".into(), "late".into(), 1, &db, &dbs);
            let now = db.get_value("k".into()).map(|e| e.value).unwrap_or_default();
            chk(&mut v, "C13.notice-names-the-version-the-key-holds", is_err(&late) && now == decided);
            chk(&mut v, "C13.set-arbiter", is_err(&late) && now == decided);
            // (settle that conflict so that the checks below see an empty queue)
            for n in drain(&mut arx) { let f: Vec<&str> = n.split(' ').collect(); if f.len() > 6 { let mut ch = Change::new("k".into(), f[6..].join(" "), f[3].parse().unwrap_or(0)); ch.opp_id = f[1].parse().unwrap_or(0); let _ = db.resolve_conflit(ch, &dbs); } }
            drain(&mut arx2);
        }
        let (arb3, mut arx3) = Client::new_empty_and_receiver();
        db.register_arbiter(&arb3);
        chk(&mut v, "C13.redeliver", drain(&mut arx3).is_empty());
        chk(&mut v, "C13.redeliver", db.list_keys(&"$conflicts_k".to_string(), true).is_empty());
    }
    Ok(v)
}
fn all_arbiter_scenarios() -> Vec<String> {
    vec!["1|0", "2|01", "2|10", "3|012", "3|021", "3|102", "3|120", "3|201", "3|210", "2|001", "2|110", "3|0012", "3|0102", "3|1012", "3|2201", "1|0|away", "2|01|away", "2|10|away", "restart|S|1", "restart|R|1", "restart|S|2", "restart|R|3", "restart|Sc|1", "restart|Rc|1", "restart|Sc|2"].into_iter().map(|x| x.to_string()).collect()
}

// ------------------------------------------------------------------ family: watch (subscription windows, sequential)
fn scenario_watch(sc: &str) -> Result<Violations, String> {
    // sc = events separated by '.':  wA wB (watch k) uA uB (unwatch k) xA xB (unwatch-all) oA (A watches other key) s (set k) i (inc k) r (remove k) f (refused set-safe)
    let dbs = mk_dbs();
    let db = Database::new("d".into(), DatabaseMataData::new(1, ConsensuStrategy::None));
    db.set_value_version(&"k".to_string(), &"5".to_string(), 3, ValueStatus::Ok, 1, 2, 3);
    let (sa, mut ra): (Sender<String>, Receiver<String>) = channel(1000);
    let (sb, mut rb): (Sender<String>, Receiver<String>) = channel(1000);
    let mut sub = [0usize, 0usize];   // number of registrations of each client for k (`d` = watch again without unwatching: a second registration)
    let mut expect = [0usize, 0usize];
    let mut sub2 = [0usize, 0usize];   // registrations for the key `kk`
    let mut v: Violations = vec![];
    for ev in sc.split('.').filter(|e| !e.is_empty()) {
        let who = if ev.ends_with('B') { 1 } else { 0 };
        let snd = if who == 1 { &sb } else { &sa };
        match &ev[0..1] {
            "w" => { if sub[who] == 0 { watch_key(&"k".to_string(), snd, &db); sub[who] = 1; } }
            "d" => { watch_key(&"k".to_string(), snd, &db); sub[who] += 1; }
            "u" => { unwatch_key(&"k".to_string(), snd, &db); sub[who] = 0; }
            "x" => { unwatch_all(snd, &db); sub[who] = 0; sub2[who] = 0; }
            "o" => { watch_key(&"other".to_string(), snd, &db); }
            // a second key whose name CONTAINS the first key's name: subscriptions are per exact key name - `unwatch k` ends nothing of `kk`
            "m" => { if sub2[who] == 0 { watch_key(&"kk".to_string(), snd, &db); sub2[who] = 1; } }
            "t" => { set_key_value("kk".into(), "8".into(), -1, &db, &dbs); for w in 0..2 { expect[w] += 2 * sub2[w]; } }
            "s" => { set_key_value("k".into(), "7".into(), -1, &db, &dbs); for w in 0..2 { expect[w] += 2 * sub[w]; } }
            "i" => { db.inc_value("k".into(), 1); for w in 0..2 { expect[w] += 2 * sub[w]; } }
            "r" => { remove_key(&"k".to_string(), &db); for w in 0..2 { expect[w] += sub[w]; } }
            "f" => { set_key_value("k".into(), "zz".into(), 0, &db, &dbs); }
            // the key has never been snapshotted (state New): removing it drops the entry instead of leaving a tombstone - the subscriptions outlive that
            "n" => { db.set_value_version(&"k".to_string(), &"5".to_string(), 3, ValueStatus::New, 0, 0, 3); }
            // a burst: 600 writes nobody drains in between (more frames than the subscriber's channel buffers: 1000) - a slow subscriber still gets both frames of every one of them
            "b" => { for _ in 0..600 { set_key_value("k".into(), "7".into(), -1, &db, &dbs); } for w in 0..2 { expect[w] += 1200 * sub[w]; } }
            _ => return Err("bad event".into()),
        }
        let got = [drain(&mut ra), drain(&mut rb)];
        for w in 0..2 {
            let ok = got[w].len() == expect[w] && got[w].iter().all(|m| m.starts_with("changed k ") || m.starts_with("changed-version k ") || m == "removed k\n" || m.starts_with("changed kk ") || m.starts_with("changed-version kk "));
            chk(&mut v, "C03.subscription-window", ok);
            chk(&mut v, "C03.watch-appends", ok); chk(&mut v, "C03.watch-frame", ok);
            chk(&mut v, "C03.unwatch-all-only-mine", ok || !sc.contains('x')); chk(&mut v, "C03.unwatch-only-mine", ok || !sc.contains('u'));
            chk(&mut v, "C03.emit-set", ok || !(ev == "s" || ev == "b")); chk(&mut v, "C03.emit-inc", ok || !(ev == "i")); chk(&mut v, "C03.emit-removed", ok || !(ev == "r"));
            chk(&mut v, "C03.no-emit-refused", ok || !(ev == "f"));
            expect[w] = 0;
        }
    }
    Ok(v)
}
fn all_watch_scenarios() -> Vec<String> {
    let evs = ["wA", "wB", "dA", "uA", "uB", "xA", "xB", "oA", "s", "i", "r", "f"];
    let mut out = vec![];
    fn rec(evs: &[&str], cur: &mut Vec<String>, depth: usize, out: &mut Vec<String>) {
        if !cur.is_empty() { out.push(cur.join(".")); }
        if depth == 0 { return; }
        for e in evs { cur.push(e.to_string()); rec(evs, cur, depth - 1, out); cur.pop(); }
    }
    rec(&evs, &mut vec![], if deep() { 5 } else { 4 }, &mut out);
    // the same key in state New (never snapshotted): subscribe, then every sequence of <= 3 (4) writes / removes - a subscription ends by unwatch / unwatch-all / disconnect only
    let mut tails = vec![];
    rec(&["s", "i", "r", "wB"], &mut vec![], if deep() { 4 } else { 3 }, &mut tails);
    for t in tails { out.push(format!("n.wA.{}", t)); out.push(format!("wA.n.{}", t)); }
    for t in ["wA.b", "wA.wB.b.s", "dA.b", "wA.b.b.s", "wA.s.b.r"] { out.push(t.to_string()); }
    // two keys, one name inside the other: every sequence of <= 4 (5) events from watch / unwatch of the short one, watch of the long one, writes to both
    let mut two = vec![];
    rec(&["wA", "uA", "mA", "mB", "t", "s", "xB"], &mut vec![], if deep() { 5 } else { 4 }, &mut two);
    for t in two { if t.contains('m') && t.contains('t') { out.push(t); } }
    out
}

// ------------------------------------------------------------------ family: lines (hostile command lines, then a probe from a second client)
fn scenario_lines(sc: &str) -> Result<Violations, String> {
    // NEST|<n>: `rp 1 rp 1 ... get public1` nested n times from an UNAUTHENTICATED client, in a process of its own (a stack overflow aborts the process and cannot be caught in
    // process), on a thread with the default stack of a spawned thread - the way the TCP transport serves a connection.  The node must answer and keep serving (defect 22)
    if let Some(line) = sc.strip_prefix("CHILD|") {
        // an administrator's line whose failure mode may be an abort (allocation of a client-chosen size, unbounded recursion): run in a child process
        let mut v: Violations = vec![];
        let st = std::process::Command::new(std::env::current_exe().map_err(|e| e.to_string())?).arg("line-child").args(line.split(' '))
            .stdout(std::process::Stdio::null()).stderr(std::process::Stdio::null()).status().map_err(|e| e.to_string())?;
        chk(&mut v, "C10.safety", st.code() == Some(0));
        return Ok(v);
    }
    if let Some(n) = sc.strip_prefix("NEST|") {
        let mut v: Violations = vec![];
        let st = std::process::Command::new(std::env::current_exe().map_err(|e| e.to_string())?).arg("nest-child").arg(n)
            .stdout(std::process::Stdio::null()).stderr(std::process::Stdio::null()).status().map_err(|e| e.to_string())?;
        chk(&mut v, "C10.safety", st.code() == Some(0));
        return Ok(v);
    }
    let w = mk_world(0);
    let mut v: Violations = vec![];
    let (mut c, mut rx) = Client::new_empty_and_receiver();
    // A: an administrator that has selected database d;  B: an administrator that has selected nothing
    let auth = sc.starts_with("A:");
    let auth_only = sc.starts_with("B:");
    let line = if auth || auth_only { &sc[2..] } else { sc };
    // LONG|<prefix>|<unit>|<n>  stands for  <prefix> followed by <unit> repeated n times (long lines with multi-byte characters at every alignment)
    let expanded: String;
    let line = if line.starts_with("LONG|") {
        let p: Vec<&str> = line.splitn(4, '|').collect();
        if p.len() != 4 { return Err("bad LONG line".into()); }
        expanded = format!("{}{}", p[1], p[2].repeat(p[3].parse::<usize>().map_err(|_| "bad count")?));
        expanded.as_str()
    } else { line };
    if auth { run_cmd(&w, &mut c, &mut rx, "auth u p"); run_cmd(&w, &mut c, &mut rx, "use-db d tok"); }
    if auth_only { run_cmd(&w, &mut c, &mut rx, "auth u p"); }
    let out = catch_unwind(AssertUnwindSafe(|| run_cmd(&w, &mut c, &mut rx, line)));
    chk(&mut v, "C10.safety", out.is_ok());
    let (mut c2, mut rx2) = Client::new_empty_and_receiver();
    let probe = catch_unwind(AssertUnwindSafe(|| { run_cmd(&w, &mut c2, &mut rx2, "use-db d tok"); run_cmd(&w, &mut c2, &mut rx2, "set probe 1"); run_cmd(&w, &mut c2, &mut rx2, "get probe") }));
    chk(&mut v, "C10.safety", match probe { Ok((r, _)) => !is_err(&r), Err(_) => false });
    Ok(v)
}
// ------------------------------------------------------------------ family: connections ($connections == open sessions that selected the database)
/// C17 under one forced interleaving: a session disconnects while another connection holds the table of databases for writing (an in-flight create-db): the disconnect waits
/// and is then counted - it is never skipped
fn scenario_connections_busy() -> Result<Violations, String> {
    let w = mk_world(0);
    let mut v: Violations = vec![];
    let base = { let m = w.dbs.map.read().unwrap(); m.get("d").unwrap().connections_count() };
    let (mut c, mut rx) = Client::new_empty_and_receiver();
    run_cmd(&w, &mut c, &mut rx, "use-db d tok");
    let guard = w.dbs.map.write().unwrap();
    let d2 = w.dbs.clone();
    let t = std::thread::spawn(move || { c.left(&d2); });
    std::thread::sleep(std::time::Duration::from_millis(40));
    drop(guard);
    if t.join().is_err() { v.push("C10.safety".into()); return Ok(v); }
    let m = w.dbs.map.read().unwrap();
    let db = m.get("d").unwrap();
    let key = db.get_value("$connections".into()).map(|e| e.value);
    for l in ["C17.left-decrements", "C17.count-is-open-sessions", "C17.request-session-released"] { chk(&mut v, l, db.connections_count() == base); }
    chk(&mut v, "C17.mirror", key.as_deref() == Some(base.to_string().as_str()));
    Ok(v)
}
/// a database snapshotted while k sessions had it selected, then loaded from disk (a restart): it counts NO session - the `$connections` key on disk is data, not a count - and from
/// then on the counter and its mirror key follow the sessions of this run only
fn scenario_connections_restored(k: usize) -> Result<Violations, String> {
    use nundb::disk_ops::snapshot_all_pendding_dbs;
    use nundb::storage::disk::{create_db_from_file_name, file_name_from_db_name};
    let dir = std::env::var("NUN_DBS_DIR").map_err(|_| "NUN_DBS_DIR not set")?;
    let name = "conndb".to_string();
    for suf in [".keys", ".values", ".keys.old", ".values.old"] { let _ = std::fs::remove_file(format!("{}{}", file_name_from_db_name(&name), suf)); }
    let _ = std::fs::remove_file(format!("{}/{}-nun.madadata", dir, name));
    let dbs = mk_dbs();
    let w = World { dbs: dbs.clone() };
    let mut v: Violations = vec![];
    let ok = catch_unwind(AssertUnwindSafe(|| {
        let mut viol: Violations = vec![];
        let (mut admin, mut arx) = Client::new_empty_and_receiver();
        for c in ["auth u p", "create-db conndb tok"] { run_cmd(&w, &mut admin, &mut arx, c); }
        let mut open = vec![];
        for _ in 0..k { let (mut c, mut rx) = Client::new_empty_and_receiver(); run_cmd(&w, &mut c, &mut rx, "use-db conndb tok"); run_cmd(&w, &mut c, &mut rx, "set a 1"); open.push((c, rx)); }
        dbs.to_snapshot.write().unwrap().push((name.clone(), false));
        snapshot_all_pendding_dbs(&dbs);
        // the restart: every session of the old run is gone with its process; the database comes back from its files
        let (db, _) = create_db_from_file_name(&format!("{}-nun.data.keys", name), &dbs);
        dbs.map.write().unwrap().insert(name.clone(), db);
        let count = |dbs: &Arc<Databases>| -> (usize, Option<String>) { let m = dbs.map.read().unwrap(); let db = m.get("conndb").unwrap(); (db.connections_count(), db.get_value("$connections".into()).map(|e| e.value)) };
        chk(&mut viol, "C17.count-is-open-sessions", count(&dbs).0 == 0);
        let (mut c1, mut rx1) = Client::new_empty_and_receiver();
        run_cmd(&w, &mut c1, &mut rx1, "use-db conndb tok");
        let (n, key) = count(&dbs);
        if std::env::var("VERIF_TRACE").is_ok() { eprintln!("after the restart and one use-db: counter {} key {:?}", n, key); }
        chk(&mut viol, "C17.count-is-open-sessions", n == 1); chk(&mut viol, "C17.use-db-increments", n == 1);
        chk(&mut viol, "C17.mirror", key.as_deref() == Some("1"));
        c1.left(&dbs);
        let (n, key) = count(&dbs);
        chk(&mut viol, "C17.left-decrements", n == 0); chk(&mut viol, "C17.mirror", key.as_deref() == Some("0"));
        std::mem::forget(arx); std::mem::forget(open);
        viol
    }));
    match ok { Ok(x) => v.extend(x), Err(_) => { v.push("C10.safety".into()); v.push("C17.no-underflow".into()); } }
    for suf in [".keys", ".values", ".keys.old", ".values.old"] { let _ = std::fs::remove_file(format!("{}{}", file_name_from_db_name(&name), suf)); }
    let _ = std::fs::remove_file(format!("{}/{}-nun.madadata", dir, name));
    Ok(v)
}
fn scenario_connections(sc: &str) -> Result<Violations, String> {
    if sc == "busy" { return scenario_connections_busy(); }
    if let Some(k) = sc.strip_prefix("restored|") { return scenario_connections_restored(k.parse().map_err(|_| "bad count")?); }
    // sc = events separated by '.':  <session a|b|c><op>  ops: d (use-db d tok) e (use-db e etok) u (use-db d usr ut) x (use-db d wrong) l (disconnect) w (set $connections 9)
    // a leading `S:` makes the node a SECONDARY after its data is set up: sessions are counted and the mirror key is written on every node, whatever its role
    let (sc, secondary) = match sc.strip_prefix("S:") { Some(rest) => (rest, true), None => (sc, false) };
    let w = mk_world(0);
    {   let (mut admin, mut arx) = Client::new_empty_and_receiver();
        for c in ["auth u p", "create-db e etok"] { run_cmd(&w, &mut admin, &mut arx, c); }
        std::mem::forget(arx); }
    if secondary { w.dbs.node_state.swap(ClusterRole::Secoundary as usize, std::sync::atomic::Ordering::Relaxed); }
    let mut v: Violations = vec![];
    // sessions opened while the world was built (the administrator that created the data) are still counted: measure the baseline
    let base: Vec<usize> = { let m = w.dbs.map.read().unwrap(); ["d", "e"].iter().map(|n| m.get(*n).unwrap().connections_count()).collect() };
    let mut sess: Vec<Option<(Client, Receiver<String>)>> = vec![None, None, None];
    let mut sel: Vec<Option<String>> = vec![None, None, None];
    let mut dirty: Option<String> = None;   // the database whose mirror key a client has overwritten and no session event has rewritten yet
    for ev in sc.split('.').filter(|e| !e.is_empty()) {
        let i = (ev.as_bytes()[0] - b'a') as usize;
        if sess[i].is_none() { sess[i] = Some(Client::new_empty_and_receiver()); }
        let op = &ev[1..2];
        let sel_before = sel[i].clone();
        let ok = catch_unwind(AssertUnwindSafe(|| {
            let (c, rx) = sess[i].as_mut().unwrap();
            match op {
                "d" => { if !is_err(&run_cmd(&w, c, rx, "use-db d tok").0) { sel[i] = Some("d".into()); } }
                "e" => { if !is_err(&run_cmd(&w, c, rx, "use-db e etok").0) { sel[i] = Some("e".into()); } }
                "u" => { if !is_err(&run_cmd(&w, c, rx, "use-db d usr ut").0) { sel[i] = Some("d".into()); } }
                "x" => { run_cmd(&w, c, rx, "use-db d wrong"); }
                // a client overwrites the mirror key itself: the next session event must put the true count back (the key is written from the counter, not nudged)
                "w" => { run_cmd(&w, c, rx, "set $connections 9"); }
                _ => { c.left(&w.dbs); }
            }
        }));
        if ok.is_err() { v.push("C10.safety".into()); v.push("C17.no-underflow".into()); return Ok(v); }
        // the mirror of a database is rewritten by the session events that touch its counter: an accepted use-db of it, a session moving away from it, a disconnect from it
        if op == "w" { if sel_before.is_some() { dirty = sel_before.clone(); } continue; }
        let sel_after = if op == "l" { None } else { sel[i].clone() };
        let accepted = op == "l" || (op != "x" && sel_after.is_some() && (op == "e") == (sel_after.as_deref() == Some("e")));
        if accepted && dirty.is_some() && (sel_before == dirty || sel_after == dirty) { dirty = None; }
        if op == "l" { sess[i] = None; sel[i] = None; }
        let m = w.dbs.map.read().unwrap();
        for (bi, name) in ["d", "e"].iter().enumerate() {
            let name = *name;
            let want = base[bi] + sel.iter().filter(|s| s.as_deref() == Some(name)).count();
            let db = m.get(name).unwrap();
            let got = db.connections_count();
            let key = db.get_value("$connections".into()).map(|e| e.value);
            chk(&mut v, "C17.count-is-open-sessions", got == want);
            for l in ["C17.use-db-increments", "C17.use-db-releases-previous", "C17.left-decrements", "C17.lemma-accounting"] { chk(&mut v, l, got == want); }
            if (want > 0 || key.is_some()) && dirty.as_deref() != Some(name) { chk(&mut v, "C17.mirror", key.as_deref() == Some(want.to_string().as_str()) || (want == 0 && key.is_none())); }
        }
    }
    Ok(v)
}
fn all_connections_scenarios() -> Vec<String> {
    let evs = ["ad", "ae", "au", "ax", "al", "bd", "be", "bl", "aw"];
    let mut out = vec![];
    fn rec(evs: &[&str], cur: &mut Vec<String>, depth: usize, out: &mut Vec<String>) {
        if !cur.is_empty() { out.push(cur.join(".")); }
        if depth == 0 { return; }
        for e in evs { cur.push(e.to_string()); rec(evs, cur, depth - 1, out); cur.pop(); }
    }
    rec(&evs, &mut vec![], if deep() { 5 } else { 4 }, &mut out);
    out.push("busy".into());
    for k in ["restored|0", "restored|1", "restored|3"] { out.push(k.to_string()); }
    for k in ["S:ad", "S:ad.al", "S:ad.bd.al", "S:ad.ae.al", "S:au.bd.bl.al"] { out.push(k.to_string()); }
    out
}

// ------------------------------------------------------------------ family: snapshot (histories of writes, snapshots and restarts on the real disk code)
fn scenario_snapshot(sc: &str) -> Result<Violations, String> {
    // sc = ops separated by '.':  s<key><val idx>  r<key>  i<key>  S (incremental snapshot)  R (space-reclaiming snapshot)  L (restart: load from disk)
    use nundb::disk_ops::snapshot_all_pendding_dbs;
    use nundb::storage::disk::{create_db_from_file_name, file_name_from_db_name};
    let vals: [String; 6] = ["v".into(), "".into(), "two words".into(), "7".into(), "ação ✓ 日本".into(), (0..175).map(|i| format!("{:04}", i * 37 % 10000)).collect::<String>()];   // the long value (700 bytes, larger than any buffer of the writer or the loader) is not periodic: a shifted or repeated chunk shows
    let dir = std::env::var("NUN_DBS_DIR").map_err(|_| "NUN_DBS_DIR not set")?;
    let name = "snapdb".to_string();
    for suf in [".keys", ".values", ".keys.old", ".values.old"] { let _ = std::fs::remove_file(format!("{}{}", file_name_from_db_name(&name), suf)); }
    let _ = std::fs::remove_file(format!("{}/{}-nun.madadata", dir, name));
    let dbs = mk_dbs();
    let (mut c, mut rx) = Client::new_empty_and_receiver();
    let w = World { dbs: dbs.clone() };
    for cmd in ["auth u p", "create-db snapdb tok newer", "use-db snapdb tok"] { run_cmd(&w, &mut c, &mut rx, cmd); }
    let live = |dbs: &Arc<Databases>| -> Vec<(String, String, i32)> {
        let m = dbs.map.read().unwrap(); let db = m.get("snapdb").unwrap(); let data = db.map.read().unwrap();
        let mut out: Vec<(String, String, i32)> = data.iter().filter(|(k, v)| v.state != ValueStatus::Deleted && k.as_str() != "$connections")
            .map(|(k, v)| (k.clone(), v.value.clone(), v.version)).collect();
        out.sort(); out };
    let (id0, strat0) = { let m = dbs.map.read().unwrap(); let db = m.get("snapdb").unwrap(); (db.metadata.id, db.metadata.consensus_strategy) };
    let mut v: Violations = vec![];
    let mut snap: Option<Vec<(String, String, i32)>> = None;
    let meta_lost = std::cell::Cell::new(false);
    for op in sc.split('.').filter(|o| !o.is_empty()) {
        let ok = catch_unwind(AssertUnwindSafe(|| {
            let b = op.as_bytes();
            match b[0] {
                b's' => { let cmd = format!("set k{} {}", b[1] as char, vals[(b[2] - b'0') as usize]); run_cmd(&w, &mut c, &mut rx, &cmd); None }
                b'r' => { run_cmd(&w, &mut c, &mut rx, &format!("remove k{}", b[1] as char)); None }
                // a versioned write presenting version -(2 + idx): probes whether a client can make a live key carry version -1, the on-disk deletion marker
                b'v' => { run_cmd(&w, &mut c, &mut rx, &format!("set-safe k{} -{} vv", b[1] as char, 2 + (b[2] - b'0'))); None }
                b'i' => { run_cmd(&w, &mut c, &mut rx, &format!("increment k{} 1", b[1] as char)); None }
                b'S' | b'R' => {
                    let before = live(&dbs);
                    dbs.to_snapshot.write().unwrap().push((name.clone(), b[0] == b'R'));
                    snapshot_all_pendding_dbs(&dbs);
                    // a snapshot changes nothing a client can see
                    Some((before.clone(), live(&dbs) == before, false))
                }
                // the metadata file is lost (an older release did not write one; a crash cut it short): the database must come back with the `newer` strategy
                b'M' => { let _ = std::fs::remove_file(format!("{}/{}-nun.madadata", dir, name)); meta_lost.set(true); None }
                _ if !std::path::Path::new(&format!("{}.keys", file_name_from_db_name(&name))).exists() => None,   // nothing was ever snapshotted: no restart to judge
                _ => {
                    let (db, _) = create_db_from_file_name(&format!("{}-nun.data.keys", name), &dbs);
                    let meta_ok = if meta_lost.get() { db.metadata.consensus_strategy == ConsensuStrategy::Newer } else { db.metadata.id == id0 && db.metadata.consensus_strategy == strat0 };
                    dbs.map.write().unwrap().insert(name.clone(), db);
                    Some((live(&dbs), meta_ok, true))
                }
            }
        }));
        match ok {
            Err(_) => { v.push("C10.safety".into()); return Ok(v); }
            Ok(None) => {}
            Ok(Some((state, flag, is_load))) => {
                if !is_load { chk(&mut v, "C06.snapshot-keeps-memory", flag); chk(&mut v, "C01.snapshot-invisible", flag); snap = Some(state); }
                else if let Some(sn) = &snap {
                    if std::env::var("VERIF_TRACE").is_ok() { eprintln!("snapshotted: {:?}\nreloaded:    {:?}", sn.iter().map(|(k, v, ver)| (k.clone(), v.chars().take(12).collect::<String>(), *ver)).collect::<Vec<_>>(), state.iter().map(|(k, v, ver)| (k.clone(), v.chars().take(12).collect::<String>(), *ver)).collect::<Vec<_>>()); }
                    // ---- restart after the last completed snapshot: exactly the snapshotted state (live keys, values byte for byte, versions), same id and strategy
                    chk(&mut v, "C06.loader-decodes-image", &state == sn);
                    chk(&mut v, "C06.write-plan", &state == sn);
                    chk(&mut v, "C06.restore-is-snapshot", &state == sn);
                    // C02: the version get-safe reports never goes back - a restart included: a key a snapshot covered comes back with the version it had
                    let versions = |st: &Vec<(String, String, i32)>| -> Vec<(String, i32)> { st.iter().map(|(k, _, ver)| (k.clone(), *ver)).collect() };
                    chk(&mut v, "C02.version-survives-restart", versions(&state) == versions(sn));
                    chk(&mut v, "C06.metadata-restored", flag);
                    if meta_lost.get() { chk(&mut v, "C19.default-strategy-newer", flag); }
                }
            }
        }
    }
    Ok(v)
}
fn all_snapshot_scenarios() -> Vec<String> {
    // every history of `len` operations over two keys, a snapshot and a restart appended so that each is judged; plus hand-picked longer ones
    let ops = ["sa0", "sa4", "sb5", "sa1", "ra", "ia", "S", "R", "L"];
    let len = if deep() { 5 } else { 4 };
    let mut out: Vec<String> = vec![];
    let mut idx = vec![0usize; len];
    loop {
        let h: Vec<&str> = idx.iter().map(|&i| ops[i]).collect();
        if h.iter().any(|o| *o == "S" || *o == "R") { out.push(format!("{}.S.L", h.join("."))); out.push(format!("{}.L", h.join("."))); out.push(format!("{}.R.L", h.join("."))); }
        let mut p = 0; loop { if p == len { break; } idx[p] += 1; if idx[p] < ops.len() { break; } idx[p] = 0; p += 1; }
        if p == len { break; }
    }
    for h in ["va0.S.L", "va0.R.L", "va1.S.L", "va1.sa0.S.L", "va1.ia.S.L", "va1.ia.ia.R.L", "sa0.va0.S.L", "sa0.S.va0.S.L", "va2.sa0.sa0.R.L", "sa0.S.sb0.S.ra.S.L.sb2.S.L", "sa0.S.sb0.S.ra.S.L.rb.S.L", "sa0.S.sb5.S.ra.S.L.ib.S.L", "sb0.S.sa0.S.rb.S.L.sa2.S.L.R.L", "sa0.S.sa2.S.L.ra.S.L.sa3.R.L", "sa5.sb4.S.ra.S.sa0.S.L.ia.R.L.rb.S.L", "sa3.ia.ia.S.L.ia.S.L", "sa0.S.ra.R.sa1.S.L", "sa0.sb0.R.ra.S.sb2.S.L.R.L",
              "sa0.ra.S.L", "sa0.S.sa3.S.L", "sa0.S.sa3.S.L.sa0.S.L", "sb5.S.sb5.S.L", "sa0.S.ra.sa1.S.L", "sa1.S.L.sa1.S.L", "sa0.S.L.ra.S.L.L", "sa0.S.M.L", "sa0.sb0.R.M.L", "sa0.S.M.L.sa1.S.L"] { out.push(h.to_string()); }
    out.sort(); out.dedup();
    out
}

// ------------------------------------------------------------------ family: resync (full synchronisation of a joining node, fed back through the real parser)
fn scenario_resync(sc: &str) -> Result<Violations, String> {
    // sc = "<strategy>|<value idx>|<removed key present: 0/1>"   the primary holds database d (strategy), key a = value, optionally a removed (tombstoned) key g
    use nundb::replication_ops::get_pendding_opps_since;
    let p: Vec<&str> = sc.split('|').collect();
    if p.len() == 4 && p[0] == "inc" { return scenario_resync_incremental(&p); }
    if sc == "interleave" { return scenario_resync_interleave(); }
    if p.len() != 3 { return Err("bad resync scenario".into()); }
    let vals = ["v", "two words", "7 up", "x", "ação ✓"];
    let val = vals[p[1].parse::<usize>().map_err(|_| "bad value idx")?];
    let primary = mk_dbs();
    let w = World { dbs: primary.clone() };
    let (mut c, mut rx) = Client::new_empty_and_receiver();
    for cmd in ["auth u p".to_string(), format!("create-db d tok {}", p[0]), "use-db d tok".to_string(), format!("set a {}", val), format!("set a {}", val)] { run_cmd(&w, &mut c, &mut rx, &cmd); }
    // the users of the database and their permission lists are ordinary ($$) keys of it: they have to travel too
    for cmd in ["create-user alice at", "set-permissions alice r a"] { run_cmd(&w, &mut c, &mut rx, cmd); }
    if p[2] == "1" {
        run_cmd(&w, &mut c, &mut rx, "set g gone");
        { let m = primary.map.read().unwrap(); let db = m.get("d").unwrap(); let e = db.get_value("g".into()).unwrap(); db.set_value_as_ok(&"g".to_string(), &e, 1, 2, e.opp_id); }
        run_cmd(&w, &mut c, &mut rx, "remove g");
    }
    let mut v: Violations = vec![];
    let lines = match catch_unwind(AssertUnwindSafe(|| get_pendding_opps_since(0, &primary))) { Ok(l) => l, Err(_) => { v.push("C10.safety".into()); return Ok(v); } };
    // ---- the joining node: an empty node that receives the lines the way a peer sends them (authenticated replication session)
    let joiner = mk_dbs();
    let wj = World { dbs: joiner.clone() };
    let (mut cj, mut rxj) = Client::new_empty_and_receiver();
    run_cmd(&wj, &mut cj, &mut rxj, "auth u p");
    for l in &lines { if catch_unwind(AssertUnwindSafe(|| run_cmd(&wj, &mut cj, &mut rxj, l))).is_err() { v.push("C10.safety".into()); return Ok(v); } }
    let pm = primary.map.read().unwrap(); let pd = pm.get("d").unwrap();
    let jm = joiner.map.read().unwrap();
    let jd = match jm.get("d") { Some(d) => d, None => { chk(&mut v, "C05.full-sync-covers-every-database", false); return Ok(v); } };
    chk(&mut v, "C05.full-sync-covers-every-database", jd.get_value("$$token".into()).map(|e| e.value) == pd.get_value("$$token".into()).map(|e| e.value));
    // ---- same conflict strategy
    chk(&mut v, "C05.create-db-line-carries-strategy", jd.metadata.consensus_strategy == pd.metadata.consensus_strategy);
    // ---- values byte for byte, same versions
    let pa = pd.get_value("a".into()).unwrap(); let ja = jd.get_value("a".into());
    chk(&mut v, "C05.sync-line-carries-version", ja.as_ref().map_or(false, |e| e.value == pa.value && e.version == pa.version && e.state != ValueStatus::Deleted));
    // ---- every live key of the primary exists on the joiner (names only: what the lines do to values is judged above)
    let live_names = |d: &Database| -> Vec<String> { let m = d.map.read().unwrap(); let mut n: Vec<String> = m.iter().filter(|(k, e)| e.state != ValueStatus::Deleted && k.as_str() != "$connections").map(|(k, _)| k.clone()).collect(); n.sort(); n };
    let (pn, jn) = (live_names(pd), live_names(jd));
    chk(&mut v, "C05.full-sync-sends-every-key", pn.iter().all(|k| jn.contains(k)));
    // ---- a key removed on the primary is not alive on the joiner
    if p[2] == "1" { chk(&mut v, "C05.sync-skips-removed-keys", jd.get_value("g".into()).map_or(true, |e| e.state == ValueStatus::Deleted)); }
    Ok(v)
}
/// incremental catch-up: the primary's operation log holds  create-db d, write d/a, write d/b, [create-db e,] write d/a again, [remove d/g];  the node asks for everything since the first
/// record.  sc = "inc|<value idx>|<database created between the two writes: 0/1>|<removed key: 0/1>"
fn scenario_resync_incremental(p: &[&str]) -> Result<Violations, String> {
    use nundb::replication_ops::get_pendding_opps_since;
    use nundb::disk_ops::Oplog;
    let vals = ["v", "two words", "7 up", "x", "ação ✓"];
    let val = vals[p[1].parse::<usize>().map_err(|_| "bad value idx")?];
    let dir = std::env::var("NUN_DBS_DIR").map_err(|_| "NUN_DBS_DIR not set")?;
    let _ = std::fs::remove_dir_all(format!("{}/oplog", dir));
    let _ = std::fs::remove_file(format!("{}/oplog-nun.op", dir));
    let primary = mk_dbs();
    let w = World { dbs: primary.clone() };
    let (mut c, mut rx) = Client::new_empty_and_receiver();
    let db_id = |name: &str| -> u64 { primary.map.read().unwrap().get(name).unwrap().metadata.id as u64 };
    let key_id = |key: &str| -> u64 {
        let mut km = primary.keys_map.write().unwrap();
        if let Some(id) = km.get(key) { return *id; }
        let id = km.len() as u64; km.insert(key.to_string(), id); primary.id_keys_map.write().unwrap().insert(id, key.to_string()); id };
    let mut v: Violations = vec![];
    let mut t = 100u64;
    let since = t;
    {
        let mut log = Oplog::get_log_file_append_mode();
        let mut rec = |db: u64, key: u64, op: ReplicateOpp| { Oplog::write_op_log(&mut log, db, key, &op, t).map_err(|e| e.to_string()).unwrap(); t += 1; };
        for cmd in ["auth u p", "create-db d tok", "use-db d tok"] { run_cmd(&w, &mut c, &mut rx, cmd); }
        rec(db_id("d"), key_id("$$token"), ReplicateOpp::CreateDb);
        run_cmd(&w, &mut c, &mut rx, "set a first"); rec(db_id("d"), key_id("a"), ReplicateOpp::Update);
        run_cmd(&w, &mut c, &mut rx, "set b bee"); rec(db_id("d"), key_id("b"), ReplicateOpp::Update);
        if p[2] == "1" { run_cmd(&w, &mut c, &mut rx, "create-db e etok"); rec(db_id("e"), key_id("$$token"), ReplicateOpp::CreateDb); }
        run_cmd(&w, &mut c, &mut rx, &format!("set a {}", val)); rec(db_id("d"), key_id("a"), ReplicateOpp::Update);
        if p[3] == "1" { run_cmd(&w, &mut c, &mut rx, "set g gone"); rec(db_id("d"), key_id("g"), ReplicateOpp::Update); run_cmd(&w, &mut c, &mut rx, "remove g"); rec(db_id("d"), key_id("g"), ReplicateOpp::Remove); }
    }
    let lines = match catch_unwind(AssertUnwindSafe(|| get_pendding_opps_since(since, &primary))) { Ok(l) => l, Err(_) => { v.push("C10.safety".into()); return Ok(v); } };
    let pa = { let pm = primary.map.read().unwrap(); pm.get("d").unwrap().get_value("a".into()).unwrap() };
    // ---- one line per (database, key) of the log, in log order: the database is created before its key is written
    let n_expected = 3 + if p[2] == "1" { 1 } else { 0 } + if p[3] == "1" { 1 } else { 0 };
    let pos = |pre: &str| lines.iter().position(|l| l.starts_with(pre));
    let ordered = match (pos("create-db d "), pos("replicate d a")) { (Some(c0), Some(a0)) => c0 < a0, _ => false };
    chk(&mut v, "C05.incremental-sync-one-line-per-record", lines.len() == n_expected && ordered);
    chk(&mut v, "C05.since-nonzero-is-incremental", lines.len() == n_expected && ordered);
    // ---- each line carries what the primary holds NOW for the database and key the record names
    let current = lines.iter().any(|l| *l == format!("replicate d a {}", pa.value) || *l == format!("replicate d a {} {}", pa.version, pa.value));
    chk(&mut v, "C05.incremental-sync-line-is-current", current);
    if p[3] == "1" { chk(&mut v, "C05.incremental-sync-line-is-current", lines.iter().any(|l| l == "replicate-remove d g")); }
    // ---- the joining node (it already has d from before it went away: here it simply replays the lines on an empty node)
    let joiner = mk_dbs();
    let wj = World { dbs: joiner.clone() };
    let (mut cj, mut rxj) = Client::new_empty_and_receiver();
    run_cmd(&wj, &mut cj, &mut rxj, "auth u p");
    for l in &lines { if catch_unwind(AssertUnwindSafe(|| run_cmd(&wj, &mut cj, &mut rxj, l))).is_err() { v.push("C10.safety".into()); return Ok(v); } }
    let jm = joiner.map.read().unwrap();
    let ja = jm.get("d").and_then(|d| d.get_value("a".into()));
    chk(&mut v, "C05.incremental-sync-line-carries-version", ja.as_ref().map_or(false, |e| e.value == pa.value && e.version == pa.version && e.state != ValueStatus::Deleted));
    Ok(v)
}
/// one FORCED interleaving (the sequential contracts declare interleavings undecided): the joiner's `replicate-since-to` reaches the supervisor while the replication thread owns the
/// cluster state and hands a live write to the members.  Whatever the synchronisation then says about the key must not be OLDER than the write the joiner was already handed: the
/// supervisor computes the list under the same lock the live fan-out holds
fn scenario_resync_interleave() -> Result<Violations, String> {
    use nundb::replication_ops::{get_replicate_message, start_replication_supervisor};
    let (rs, rr): (Sender<String>, Receiver<String>) = channel(1000);
    let (ss, sr): (Sender<String>, Receiver<String>) = channel(1000);
    std::mem::forget(rr);
    let dbs = Arc::new(Databases::new("u".into(), "p".into(), "p:1".into(), "p:1".into(), ss.clone(), rs, HashMap::new(), 1, true));
    dbs.node_state.swap(ClusterRole::Primary as usize, std::sync::atomic::Ordering::Relaxed);
    let w = World { dbs: dbs.clone() };
    let (mut admin, mut arx) = Client::new_empty_and_receiver();
    for c in ["auth u p", "create-db d tok newer", "use-db d tok", "set k before"] { run_cmd(&w, &mut admin, &mut arx, c); }
    let (ms, mut mr): (Sender<String>, Receiver<String>) = channel(1000);
    dbs.add_cluster_member(ClusterMember { name: "j:1".into(), role: ClusterRole::Secoundary, sender: Some(ms) });
    let d2 = dbs.clone();
    std::thread::spawn(move || { futures::executor::block_on(start_replication_supervisor(sr, d2, Arc::new("p:1".to_string()))); });
    let mut v: Violations = vec![];
    {
        let state = dbs.cluster_state.lock().unwrap();
        ss.clone().try_send("replicate-since-to j:1 0".to_string()).map_err(|e| e.to_string())?;
        std::thread::sleep(std::time::Duration::from_millis(300));
        run_cmd(&w, &mut admin, &mut arx, "set k after");
        let message = get_replicate_message("d".to_string(), "k".to_string(), "after".to_string(), -1);
        for (name, member) in state.members.lock().unwrap().iter() {
            let line = dbs.register_pending_opp(1, message.clone(), name);
            if let Some(snd) = &member.sender { let _ = snd.clone().try_send(line); }
        }
    }
    // wait (up to 10 s - the machine may be busy) until the synchronisation has been served: its last line is the snapshot request
    let mut link: Vec<String> = vec![];
    for _ in 0..100 {
        std::thread::sleep(std::time::Duration::from_millis(100));
        link.extend(drain(&mut mr));
        if link.iter().any(|m| m.starts_with("replicate-snapshot")) { break; }
    }
    if !link.iter().any(|m| m.starts_with("replicate-snapshot")) { return Err("the supervisor did not serve the synchronisation in time".into()); }
    let about_k: Vec<&String> = link.iter().filter(|m| m.contains("replicate d k ")).collect();
    if std::env::var("VERIF_TRACE").is_ok() { eprintln!("on the joiner's link: {:?}", link); }
    // the synchronisation was served, and the last thing the joiner is told about k is the value the primary holds
    chk(&mut v, "C05.sync-is-not-older-than-what-the-joiner-already-got", !about_k.is_empty() && about_k.last().map_or(false, |m| m.ends_with("after")) && about_k.len() >= 2);
    let _ = ss.clone().try_send("exit x".to_string());
    std::mem::forget(arx);
    Ok(v)
}
fn all_resync_scenarios() -> Vec<String> {
    let mut out = vec!["interleave".to_string()];
    for vi in 0..5 { for e in ["0", "1"] { for g in ["0", "1"] { out.push(format!("inc|{}|{}|{}", vi, e, g)); } } }
    for st in ["none", "newer", "arbiter"] { for vi in 0..5 { for g in ["0", "1"] { out.push(format!("{}|{}|{}", st, vi, g)); } } }
    out
}

// ------------------------------------------------------------------ family: election (single calls of election_eval / start_new_election on one node)
fn scenario_election(sc: &str) -> Result<Violations, String> {
    // sc = "<role>.<members>.<own start time>.<candidate start time | new>"   role in {s,p,c} (StartingUp / Primary / Secoundary), members in {1,2}
    use nundb::election_ops::{election_eval, start_new_election};
    let p: Vec<&str> = sc.split('.').collect();
    if p.len() == 2 && p[0] == "alive" {
        // `election alive <node>` is what a YOUNGER node answers a candidate it yields to: the candidate (and any other node) that receives it keeps its role and says nothing -
        // it must go on waiting for its acknowledgements and claim
        let (s1, mut sup): (Sender<String>, Receiver<String>) = channel(1000);
        let (s2, mut rep): (Sender<String>, Receiver<String>) = channel(1000);
        let dbs = Arc::new(Databases::new("u".into(), "p".into(), "me:1".into(), "ext:1".into(), s1, s2, HashMap::new(), 5, true));
        let role0 = match p[1] { "s" => ClusterRole::StartingUp, "p" => ClusterRole::Primary, _ => ClusterRole::Secoundary };
        dbs.node_state.swap(role0 as usize, std::sync::atomic::Ordering::Relaxed);
        dbs.add_cluster_member(ClusterMember { name: "me:1".into(), role: role0, sender: None });
        dbs.add_cluster_member(ClusterMember { name: "other:1".into(), role: ClusterRole::Secoundary, sender: None });
        let mut v: Violations = vec![];
        let (mut peer, mut prx) = Client::new_empty_and_receiver(); peer.auth.swap(true, std::sync::atomic::Ordering::Relaxed);
        for line in ["election alive other:1", "rp 77 election alive other:1"] {
            if catch_unwind(AssertUnwindSafe(|| { process_request(line, &dbs, &mut peer); })).is_err() { v.push("C10.safety".into()); return Ok(v); }
            let same_role = dbs.get_role() == role0;
            // (the line itself is relayed on the replication channel as `election active <node>` - replicate_request - which is not a candidacy, a claim or an announcement)
            let quiet = drain(&mut sup).is_empty() && drain(&mut rep).iter().all(|m| !m.contains("election candidate") && !m.contains("election win") && !m.contains("set-primary"));
            chk(&mut v, "C07.alive-answer-changes-nothing", same_role && quiet);
            chk(&mut v, "C07.older-candidate-wins", same_role);
        }
        drain(&mut prx);
        return Ok(v);
    }
    if p.len() != 4 { return Err("bad election scenario".into()); }
    let (s1, mut sup): (Sender<String>, Receiver<String>) = channel(1000);
    let (s2, mut rep): (Sender<String>, Receiver<String>) = channel(1000);
    let own: u128 = p[2].parse().map_err(|_| "bad start time")?;
    let dbs = Arc::new(Databases::new("u".into(), "p".into(), "me:1".into(), "ext:1".into(), s1, s2, HashMap::new(), own, true));
    let role0 = match p[0] { "s" => ClusterRole::StartingUp, "p" => ClusterRole::Primary, _ => ClusterRole::Secoundary };
    dbs.node_state.swap(role0 as usize, std::sync::atomic::Ordering::Relaxed);
    dbs.add_cluster_member(ClusterMember { name: "me:1".into(), role: role0, sender: None });
    if p[1] == "2" { dbs.add_cluster_member(ClusterMember { name: "other:1".into(), role: ClusterRole::Secoundary, sender: None }); }
    let members = if p[1] == "1" { 1 } else { 2 };
    if p[1] == "2r" {
        // a helper plays the replication thread: it registers the candidacy as pending towards the (dead) peer and never acknowledges it
        dbs.add_cluster_member(ClusterMember { name: "other:1".into(), role: ClusterRole::Secoundary, sender: None });
    }
    let mut v: Violations = vec![];
    // "yield": a forced election with the registering helper (2r); while the node waits for the acknowledgement that never comes, an OLDER node's candidacy arrives and makes it a
    // secondary: it has stood down and must not claim when its wait times out
    let yielding = p[3] == "yield";
    let forced = p[3] == "new" || yielding;
    // "war": an authenticated peer link tells this node `set-primary other:1` - a node that is the primary itself must call a NEW election (stand down to candidate, announce, then
    // yield or claim again); any other node becomes that primary's secondary
    let war = p[3] == "war";
    let cand: u128 = if forced || war { 0 } else { p[3].parse().map_err(|_| "bad candidate")? };
    let run = move |d: &Arc<Databases>| {
        if war { let (mut peer, _prx) = Client::new_empty_and_receiver(); peer.auth.swap(true, std::sync::atomic::Ordering::Relaxed); process_request("set-primary other:1", d, &mut peer); }
        else if forced { start_new_election(d); } else { election_eval(d, cand, &"other:1".to_string()); }
    };
    let d2 = dbs.clone();
    let mut rep_seen: Vec<String> = vec![];
    let mut yield_too_late = false;
    let ok = if p[1] == "2r" {
        let d3 = dbs.clone();
        let h = std::thread::spawn(move || catch_unwind(AssertUnwindSafe(|| run(&d3))).is_ok());
        for _ in 0..400 {
            std::thread::sleep(std::time::Duration::from_millis(1));
            for m in drain(&mut rep) {
                let parts: Vec<&str> = m.splitn(3, ' ').collect();
                if parts.len() == 3 && parts[0] == "rp" { if let Ok(id) = parts[1].parse::<u64>() { d2.register_pending_opp(id, parts[2].to_string(), &"other:1".to_string());
                    if yielding && parts[2].contains("election candidate") { std::thread::sleep(std::time::Duration::from_millis(4));
                        // (on a busy machine the node may already have timed out and claimed before the older candidacy is delivered: then the scenario says nothing)
                        if d2.get_role() != ClusterRole::StartingUp { yield_too_late = true; }
                        election_eval(&d2, 1, &"older:1".to_string()); } } }
                rep_seen.push(m);
            }
            if h.is_finished() { break; }
        }
        h.join().unwrap_or(false)
    } else {
        catch_unwind(AssertUnwindSafe(|| run(&d2))).is_ok()
    };
    if !ok { v.push("C10.safety".into()); return Ok(v); }
    let sup_msgs = drain(&mut sup); let mut rep_msgs = rep_seen; rep_msgs.extend(drain(&mut rep));
    // every line the election code put on the replication channel is taken off it by the replication thread, which parses it - wrapper and wrapped command - and unwraps both
    // results: a line the node's own parser refuses kills that thread (nothing is logged or replicated afterwards)
    for m in &rep_msgs {
        let inner_ok = match Request::parse(m) { Ok(Request::ReplicateRequest { request_str, opp_id: _ }) => Request::parse(&request_str).is_ok(), _ => false };
        chk(&mut v, "C10.safety", inner_ok); chk(&mut v, "C07.election-lines-are-commands", inner_ok);
    }
    let role = dbs.get_role();
    let candidacies = rep_msgs.iter().filter(|m| m.contains("election candidate")).count();
    let alive = rep_msgs.iter().filter(|m| m.contains("election alive")).count();
    if war {
        if role0 == ClusterRole::Primary {
            // two primaries: this one does not yield silently and does not sit on its claim either - it stands again (one candidacy when it has peers) and ends as a secondary or
            // with a fresh claim its supervisor broadcasts (that `set-primary` is what re-aligns the nodes that took the other claim for granted)
            if members > 1 || p[1] == "2r" { chk(&mut v, "C07.two-primaries-start-an-election", candidacies == 1); }
            chk(&mut v, "C07.two-primaries-start-an-election", role == ClusterRole::Secoundary || sup_msgs.iter().any(|m| m == "election-win self"));
            chk(&mut v, "C07.election-decides", role != ClusterRole::StartingUp);
        } else {
            chk(&mut v, "C07.told-primary-is-secondary", role == ClusterRole::Secoundary && sup_msgs.iter().any(|m| m == "primary other:1") && candidacies == 0);
        }
    } else if yielding {
        if yield_too_late { return Err("the older candidacy was delivered after the node had already decided (busy machine): inconclusive".into()); }
        chk(&mut v, "C07.older-candidate-wins", role == ClusterRole::Secoundary && !sup_msgs.iter().any(|m| m == "election-win self"));
        chk(&mut v, "C07.yielded-candidate-does-not-claim", role == ClusterRole::Secoundary && !sup_msgs.iter().any(|m| m == "election-win self"));
    } else if forced || cand > own {
        // the node stands: alone it is Primary at once, otherwise it announces exactly one candidacy carrying its start time, and it never stays undecided
        if members == 1 { chk(&mut v, "C07.single-node-wins", role == ClusterRole::Primary && candidacies == 0); }
        else { chk(&mut v, "C07.candidacy-announced", candidacies == 1 && rep_msgs.iter().any(|m| m.contains(&format!("election candidate {} ext:1", own)))); }
        chk(&mut v, "C07.election-decides", role != ClusterRole::StartingUp);
        if role == ClusterRole::Primary && role0 != ClusterRole::Primary { chk(&mut v, "C07.win-claims-primary", sup_msgs.iter().any(|m| m == "election-win self")); }
    } else if cand < own {
        chk(&mut v, "C07.older-candidate-wins", role == ClusterRole::Secoundary && alive == 1 && candidacies == 0 && sup_msgs.is_empty());
    } else {
        chk(&mut v, "C07.own-candidacy-ignored", role == role0 && rep_msgs.is_empty() && sup_msgs.is_empty());
    }
    Ok(v)
}
fn all_election_scenarios() -> Vec<String> {
    let mut out = vec![];
    for r in ["s", "p", "c"] { for m in ["1", "2", "2r"] { for own in ["5", "1000", "340282366920938463463374607431768211455"] {
        for c in ["4", "5", "6", "0", "999", "1000", "1001", "340282366920938463463374607431768211454", "340282366920938463463374607431768211455", "new", "war"] {
            out.push(format!("{}.{}.{}.{}", r, m, own, c)); } } } }
    for r in ["s", "p", "c"] { out.push(format!("alive.{}", r)); }
    for r in ["s", "p", "c"] { out.push(format!("{}.2r.1000.yield", r)); }
    out
}

// ------------------------------------------------------------------ family: oplogdisk (C16: what a kill leaves on disk after any sequence of logged operations)
fn scenario_oplogdisk(sc: &str) -> Result<Violations, String> {
    // sc = events separated by '.', run through the REAL replication thread (oplog writer) of a secondary:
    //   n<k>  a write of NEW key k<k> to the known database       o<k>  a write of key k<k> to the known database (new or known, as it comes)
    //   g<k>  a write of key k<k> to a database this node does NOT have (the record is refused)      r<k>  a remove of key k<k> in the known database
    //   S     snapshot_keys (the periodic save of the key map)
    // after every event the node is "killed": the flag byte, the key map file and the oplog are read back the way a restart does, and the crash invariant is judged
    use nundb::disk_ops::{is_oplog_valid, load_keys_map_from_disk, read_operations_since, snapshot_keys, Oplog};
    use nundb::replication_ops::{replicate_message_with_sender, start_replication_thread};
    let dir = std::env::var("NUN_DBS_DIR").map_err(|_| "NUN_DBS_DIR not set")?;
    Oplog::clean_op_log_metadata_files();
    let _ = std::fs::remove_file(format!("{}/keys-nun.keys", dir));
    let (sender, _receiver): (Sender<String>, Receiver<String>) = channel(1000);
    let dbs = Arc::new(Databases::new("".into(), "".into(), "".into(), "".into(), sender.clone(), sender.clone(), HashMap::new(), 1, false));
    dbs.node_state.swap(ClusterRole::Secoundary as usize, std::sync::atomic::Ordering::Relaxed);
    dbs.add_database(Database::new("kd".into(), DatabaseMataData::new(dbs.next_db_id(), ConsensuStrategy::Newer)));
    snapshot_keys(&dbs);
    let mut v: Violations = vec![];
    let judge = |v: &mut Violations, dbs: &Arc<Databases>| {
        let keys_on_disk = load_keys_map_from_disk();
        if is_oplog_valid() {
            let id_keys: HashMap<u64, String> = keys_on_disk.iter().map(|(name, id)| (*id, name.clone())).collect();
            let intent: HashMap<u64, String> = dbs.id_keys_map.read().unwrap().clone();
            for record in read_operations_since(0).values() {
                if matches!(record.opp, ReplicateOpp::Update | ReplicateOpp::Remove) {
                    let ok = id_keys.get(&record.key).is_some() && id_keys.get(&record.key) == intent.get(&record.key);
                    for l in ["C16.log-record-after-invalidation", "C16.new-key-invalidates-before-it-is-logged", "C16.keymap-written-before-flag", "C16.kept-log-decodes", "C16.invalidate-clears-the-flag-on-disk"] { chk(v, l, ok); }
                }
            }
        }
    };
    // variant `T:`: ONE replication thread (one long-lived flag-file handle) serves the whole sequence; the key-map snapshots happen in between, from this thread, as the
    // snapshot timer does; each logged event is awaited (its id becomes the last-operation time) before the node is judged
    if let Some(seq) = sc.strip_prefix("T:") {
        let (tx, rx): (Sender<String>, Receiver<String>) = channel(100);
        let dbs2 = dbs.clone();
        let handle = std::thread::spawn(move || { let _ = catch_unwind(AssertUnwindSafe(|| futures::executor::block_on(start_replication_thread(rx, dbs2)))); });
        for ev in seq.split('.').filter(|e| !e.is_empty()) {
            if ev == "S" { snapshot_keys(&dbs); judge(&mut v, &dbs); continue; }
            let key = format!("k{}", &ev[1..]);
            let msg = match &ev[0..1] { "n" | "o" => format!("replicate kd {} -1 v", key), _ => format!("replicate-remove kd {}", key) };
            let id = replicate_message_with_sender(&tx, msg).map_err(|e| e)?;
            let t0 = std::time::Instant::now();
            while Oplog::last_op_time() != id && t0.elapsed().as_millis() < 3000 { std::thread::sleep(std::time::Duration::from_micros(200)); }
            if Oplog::last_op_time() != id { v.push("C10.safety".into()); return Ok(v); }   // the thread died or stopped logging
            judge(&mut v, &dbs);
        }
        let _ = tx.clone().try_send("exit".to_string());
        let _ = handle.join();
        Oplog::clean_op_log_metadata_files();
        return Ok(v);
    }
    for ev in sc.split('.').filter(|e| !e.is_empty()) {
        let ok = catch_unwind(AssertUnwindSafe(|| {
            if ev == "S" { snapshot_keys(&dbs); return; }
            let key = format!("k{}", &ev[1..]);
            let msg = match &ev[0..1] { "n" | "o" => format!("replicate kd {} -1 v", key), "g" => format!("replicate ghostdb {} -1 v", key), _ => format!("replicate-remove kd {}", key) };
            let (mut tx, rx): (Sender<String>, Receiver<String>) = channel(100);
            replicate_message_with_sender(&tx, msg).unwrap();
            tx.try_send("exit".to_string()).unwrap();
            futures::executor::block_on(start_replication_thread(rx, dbs.clone()));
        }));
        if ok.is_err() { v.push("C10.safety".into()); return Ok(v); }
        judge(&mut v, &dbs);
    }
    Oplog::clean_op_log_metadata_files();
    Ok(v)
}
fn all_oplogdisk_scenarios() -> Vec<String> {
    let evs = ["n1", "n2", "o1", "g1", "g2", "r1", "S"];
    let mut out = vec![];
    fn rec(evs: &[&str], cur: &mut Vec<String>, depth: usize, out: &mut Vec<String>) {
        if !cur.is_empty() { out.push(cur.join(".")); }
        if depth == 0 { return; }
        for e in evs { cur.push(e.to_string()); rec(evs, cur, depth - 1, out); cur.pop(); }
    }
    rec(&evs, &mut vec![], if deep() { 4 } else { 3 }, &mut out);
    // the same alphabet without the unknown-database event, through one long-lived replication thread
    let mut one = vec![];
    rec(&["n1", "n2", "o1", "r1", "S"], &mut vec![], if deep() { 4 } else { 3 }, &mut one);
    for h in one { if h.contains('S') { out.push(format!("T:{}", h)); } }
    out
}

// ------------------------------------------------------------------ family: wsserver (the REAL WebSocket transport: start_web_socket_client on a loopback port, one event loop for all clients)
static WS_SERVER: std::sync::OnceLock<Option<(String, Arc<Databases>)>> = std::sync::OnceLock::new();
fn ws_server() -> &'static Option<(String, Arc<Databases>)> {
    WS_SERVER.get_or_init(|| {
        let dbs = mk_dbs();
        let w = World { dbs: dbs.clone() };
        let (mut admin, mut arx) = Client::new_empty_and_receiver();
        for c in ["auth u p", "create-db wd wtok", "use-db wd wtok", "set k 1", "set alive yes"] { run_cmd(&w, &mut admin, &mut arx, c); }
        admin.left(&dbs);
        std::mem::forget(arx);
        let port = { let probe = std::net::TcpListener::bind("127.0.0.1:0").ok()?; probe.local_addr().ok()?.port() };
        let addr = format!("127.0.0.1:{}", port);
        { let dbs = dbs.clone(); let a = Arc::new(addr.clone()); std::thread::spawn(move || nundb::network::ws_ops::start_web_socket_client(dbs, a)); }
        for _ in 0..400 { if std::net::TcpStream::connect(&addr).is_ok() { std::thread::sleep(std::time::Duration::from_millis(50)); return Some((addr, dbs)); } std::thread::sleep(std::time::Duration::from_millis(10)); }
        None
    })
}
/// one WebSocket session: sends the frames, collects what arrives within the time limit, closes
fn ws_session(addr: &str, frames: Vec<ws::Message>, wait_ms: u64) -> Option<Vec<String>> {
    struct C { out: ws::Sender, frames: Vec<ws::Message>, got: std::sync::Arc<std::sync::Mutex<Vec<String>>>, wait_ms: u64 }
    impl ws::Handler for C {
        fn on_open(&mut self, _: ws::Handshake) -> ws::Result<()> {
            for f in self.frames.drain(..) { self.out.send(f)?; }
            self.out.timeout(self.wait_ms, ws::util::Token(1))
        }
        fn on_message(&mut self, msg: ws::Message) -> ws::Result<()> { if let Ok(t) = msg.as_text() { self.got.lock().unwrap().push(t.to_string()); } Ok(()) }
        fn on_timeout(&mut self, _: ws::util::Token) -> ws::Result<()> { self.out.close(ws::CloseCode::Normal) }
    }
    let got = std::sync::Arc::new(std::sync::Mutex::new(vec![]));
    let g2 = got.clone();
    let url = format!("ws://{}", addr);
    let r = ws::connect(url, move |out| C { out, frames: frames.clone(), got: g2.clone(), wait_ms });
    if r.is_err() { return None; }
    let v = got.lock().unwrap().clone();
    Some(v)
}
fn scenario_wsserver(sc: &str) -> Result<Violations, String> {
    // sc = "text" (one frame with several commands separated by ';'), "binary" (a binary frame first), "leave" (select + watch, then close)
    let (addr, dbs) = match ws_server() { Some(x) => x, None => return Err("ws server did not start".into()) };
    let mut v: Violations = vec![];
    let counters = |dbs: &Arc<Databases>| -> (usize, usize) {
        let m = dbs.map.read().unwrap(); let d = m.get("wd").unwrap();
        let watchers = d.watchers.map.read().unwrap().get("k").map_or(0, |l| l.len());
        (d.connections_count(), watchers)
    };
    let alive = |v: &mut Violations| {
        // the service still answers a new client (one event loop serves every WebSocket client)
        // (waits grow up to several seconds before the service is declared dead: a loaded machine must not look like a crash)
        let mut ok = false;
        for wait in [150u64, 400, 1000, 2500, 6000] {
            let r = ws_session(addr, vec![ws::Message::text("use-db wd wtok;get alive")], wait);
            if r.map_or(false, |msgs| msgs.iter().any(|m| m.contains("value yes"))) { ok = true; break; }
        }
        chk(v, "C10.safety", ok); chk(v, "C10.ws-service-survives", ok);
    };
    match sc {
        "text" => {
            // several commands in one frame: executed once each, in order - the refused one does not shift the others
            let mut joined = String::new(); let mut values = 0;
            for wait in [200u64, 600, 2000, 6000] {
                let r = ws_session(addr, vec![ws::Message::text("use-db wd wtok;get k;get nosuchkey;set-safe k -5 x;get k")], wait).ok_or("connect failed")?;
                joined = r.join(""); values = joined.matches("value ").count();
                if values >= 3 { break; }
            }
            chk(&mut v, "C20.ws-each-command-once-in-order", values == 3 && joined.find("value 1").is_some() && joined.find("value <Empty>").map_or(false, |e| e > joined.find("value 1").unwrap()));
            alive(&mut v);
        }
        "binary" => {
            let _ = ws_session(addr, vec![ws::Message::binary(vec![0xffu8, 0xfe, 0x00, 0x80]), ws::Message::text("use-db wd wtok;get k")], 150);
            alive(&mut v);
        }
        "leave" => {
            for _ in 0..200 { if counters(dbs) == (0, 0) { break; } std::thread::sleep(std::time::Duration::from_millis(5)); }
            let before = counters(dbs);
            let _ = ws_session(addr, vec![ws::Message::text("use-db wd wtok;watch k")], 150);
            let mut released = false;
            for _ in 0..3000 { if counters(dbs) == before { released = true; break; } std::thread::sleep(std::time::Duration::from_millis(5)); }
            for l in ["C17.disconnect-releases-session", "C17.count-is-open-sessions", "C03.disconnect-unsubscribes"] { chk(&mut v, l, released); }
        }
        _ => return Err("bad wsserver scenario".into()),
    }
    Ok(v)
}
fn all_wsserver_scenarios() -> Vec<String> { vec!["text".into(), "leave".into(), "binary".into()] }

// ------------------------------------------------------------------ family: race (real threads; schedule dependent: a clean run proves nothing, a failing run is a real lost update)
fn scenario_race(sc: &str) -> Result<Violations, String> {
    // sc = "<threads>x<increments per thread>": the threads increment ONE key of one database concurrently; every increment is acknowledged, so none may be lost
    let p: Vec<usize> = sc.split('x').map(|x| x.parse().unwrap_or(0)).collect();
    if p.len() != 2 || p[0] == 0 { return Err("bad race scenario".into()); }
    let (threads, per) = (p[0], p[1]);
    let db = Arc::new(Database::new("r".into(), DatabaseMataData::new(1, ConsensuStrategy::None)));
    db.set_value_version(&"n".to_string(), &"0".to_string(), 1, ValueStatus::Ok, 0, 0, 0);
    let mut v: Violations = vec![];
    let acks = Arc::new(std::sync::atomic::AtomicUsize::new(0));
    let hs: Vec<_> = (0..threads).map(|_| { let db = db.clone(); let acks = acks.clone(); std::thread::spawn(move || {
        for _ in 0..per { if matches!(db.inc_value("n".to_string(), 1), Response::Ok {}) { acks.fetch_add(1, std::sync::atomic::Ordering::Relaxed); } }
    }) }).collect();
    for h in hs { if h.join().is_err() { v.push("C10.safety".into()); return Ok(v); } }
    let e = db.get_value("n".into()).ok_or("key vanished")?;
    let acked = acks.load(std::sync::atomic::Ordering::Relaxed);
    // every acknowledged increment is in the value, and each of them raised the version
    chk(&mut v, "C02.no-lost-increment", e.value == acked.to_string());
    chk(&mut v, "C02.grow-inc", e.version as usize == 1 + acked);
    chk(&mut v, "C01.inc-adds", e.value == acked.to_string());
    Ok(v)
}
fn all_race_scenarios() -> Vec<String> { if deep() { vec!["4x20000".into(), "8x20000".into(), "2x50000".into()] } else { vec!["4x5000".into(), "8x2500".into()] } }

// ------------------------------------------------------------------ family: tcpserver (the REAL TCP transport: start_tcp_client on a loopback port, one thread per connection)
static TCP_SERVER: std::sync::OnceLock<Option<(String, Arc<Databases>)>> = std::sync::OnceLock::new();
fn tcp_server() -> &'static Option<(String, Arc<Databases>)> {
    TCP_SERVER.get_or_init(|| {
        let dbs = mk_dbs();
        let w = World { dbs: dbs.clone() };
        let (mut admin, mut arx) = Client::new_empty_and_receiver();
        for c in ["auth u p", "create-db td ttok", "use-db td ttok", "set k 1"] { run_cmd(&w, &mut admin, &mut arx, c); }
        admin.left(&dbs);
        std::mem::forget(arx);
        let port = { let probe = std::net::TcpListener::bind("127.0.0.1:0").ok()?; probe.local_addr().ok()?.port() };
        let addr = format!("127.0.0.1:{}", port);
        { let dbs = dbs.clone(); let a = addr.clone(); std::thread::spawn(move || nundb::network::tcp_ops::start_tcp_client(dbs, &a)); }
        for _ in 0..400 { if std::net::TcpStream::connect(&addr).is_ok() { std::thread::sleep(std::time::Duration::from_millis(50)); return Some((addr, dbs)); } std::thread::sleep(std::time::Duration::from_millis(10)); }
        None
    })
}
fn scenario_tcpserver(sc: &str) -> Result<Violations, String> {
    // sc = "<how the client goes away>.<n sessions>":  fin = reads its replies and closes;  rst = closes with replies unread (the peer sees a connection reset)
    use std::io::{Read, Write};
    let p: Vec<&str> = sc.split('.').collect();
    let n: usize = p.get(1).and_then(|x| x.parse().ok()).ok_or("bad count")?;
    let (addr, dbs) = match tcp_server() { Some(x) => x, None => return Err("tcp server did not start".into()) };
    let mut v: Violations = vec![];
    if p[0] == "garbage" {
        // bytes that are not UTF-8, a NUL, a very long line: the connection's thread must survive and answer the next command; other clients are served
        for _ in 0..n {
            let mut s = std::net::TcpStream::connect(addr).map_err(|e| e.to_string())?;
            let _ = s.set_read_timeout(Some(std::time::Duration::from_millis(400)));
            let mut junk: Vec<u8> = vec![0xff, 0xfe, 0x80, b'\n', 0x00, b'\n'];
            junk.extend(std::iter::repeat(0xc3u8).take(3000)); junk.push(b'\n');
            s.write_all(&junk).map_err(|e| e.to_string())?;
            s.write_all(b"use-db td ttok\nget k\n").map_err(|e| e.to_string())?;
            let mut got = String::new(); let mut buf = [0u8; 4096];
            for _ in 0..20 { match s.read(&mut buf) { Ok(0) => break, Ok(m) => { got.push_str(&String::from_utf8_lossy(&buf[..m])); if got.contains("value 1") { break; } } Err(_) => { if got.contains("value 1") { break; } } } }
            chk(&mut v, "C10.safety", got.contains("value 1")); chk(&mut v, "C10.tcp-connection-survives-garbage", got.contains("value 1"));
        }
        return Ok(v);
    }
    let counters = |dbs: &Arc<Databases>| -> (usize, usize) {
        let m = dbs.map.read().unwrap(); let d = m.get("td").unwrap();
        let watchers = d.watchers.map.read().unwrap().get("k").map_or(0, |l| l.len());
        (d.connections_count(), watchers)
    };
    // wait until earlier scenarios have been released
    for _ in 0..200 { if counters(dbs) == (0, 0) { break; } std::thread::sleep(std::time::Duration::from_millis(5)); }
    let before = counters(dbs);
    for _ in 0..n {
        let mut s = std::net::TcpStream::connect(addr).map_err(|e| e.to_string())?;
        let _ = s.set_read_timeout(Some(std::time::Duration::from_millis(300)));
        s.write_all(b"use-db td ttok\nwatch k\n").map_err(|e| e.to_string())?;
        // the session is counted and subscribed while it is open
        let mut seen = false;
        for _ in 0..2000 { let c = counters(dbs); if c.0 >= before.0 + 1 && c.1 >= before.1 + 1 { seen = true; break; } std::thread::sleep(std::time::Duration::from_millis(5)); }
        chk(&mut v, "C17.use-db-increments", seen);
        if p[0] == "fin" { let mut buf = [0u8; 256]; let _ = s.read(&mut buf); let _ = s.shutdown(std::net::Shutdown::Both); }
        drop(s);   // rst: the greeting and the replies are unread, the kernel answers the close with a reset
        // ... and released once the client is gone, however it went
        let mut released = false;
        for _ in 0..3000 { if counters(dbs) == before { released = true; break; } std::thread::sleep(std::time::Duration::from_millis(5)); }
        for l in ["C17.disconnect-releases-session", "C17.count-is-open-sessions", "C17.left-decrements"] { chk(&mut v, l, released && counters(dbs).0 == before.0); }
        for l in ["C03.disconnect-unsubscribes", "C03.unwatch-all-only-mine"] { chk(&mut v, l, released && counters(dbs).1 == before.1); }
        if !released { break; }
    }
    Ok(v)
}
fn all_tcpserver_scenarios() -> Vec<String> { vec!["fin.3".to_string(), "rst.3".to_string(), "garbage.2".to_string()] }

// ------------------------------------------------------------------ family: httpserver (the REAL transport: start_http_client on a loopback port, four worker threads)
/// every HTTP request is a session of its own: nothing an earlier request did (authentication, database selection) is available to a later one, whichever worker serves it
fn http_post(addr: &str, body: &str) -> String {
    use std::io::{Read, Write};
    let mut stream = match std::net::TcpStream::connect(addr) { Ok(s) => s, Err(_) => return "<connect failed>".into() };
    let _ = stream.set_read_timeout(Some(std::time::Duration::from_secs(10)));
    let request = format!("POST / HTTP/1.1\r\nHost: {}\r\nContent-Length: {}\r\nConnection: close\r\n\r\n{}", addr, body.len(), body);
    if stream.write_all(request.as_bytes()).is_err() { return "<write failed>".into(); }
    let mut response = String::new();
    let _ = stream.read_to_string(&mut response);
    match response.find("\r\n\r\n") { Some(at) => response[at + 4..].to_string(), None => response }
}
static HTTP_SERVER: std::sync::OnceLock<Option<(String, Arc<Databases>)>> = std::sync::OnceLock::new();
fn http_server() -> &'static Option<(String, Arc<Databases>)> {
    HTTP_SERVER.get_or_init(|| {
        let dbs = mk_dbs();
        let port = { let probe = std::net::TcpListener::bind("127.0.0.1:0").ok()?; probe.local_addr().ok()?.port() };
        let addr = format!("127.0.0.1:{}", port);
        { let dbs = dbs.clone(); let a = Arc::new(addr.clone()); std::thread::spawn(move || nundb::network::http_ops::start_http_client(dbs, a)); }
        for _ in 0..400 { if std::net::TcpStream::connect(&addr).is_ok() { return Some((addr, dbs)); } std::thread::sleep(std::time::Duration::from_millis(10)); }
        None
    })
}
fn scenario_httpserver(sc: &str) -> Result<Violations, String> {
    // sc = "<n>": an administrator works over HTTP for n requests (every worker gets to serve some), then n requests that never authenticate / never select a database follow
    let n: usize = sc.parse().map_err(|_| "bad count")?;
    let (addr, dbs) = match http_server() { Some(x) => x, None => return Err("http server did not start".into()) };
    let mut v: Violations = vec![];
    let created = http_post(addr, "auth u p;create-db hd htok;use-db hd htok;set $$secret S3CR3T;set pub 1");
    if !created.contains("create-db success") && !created.contains("already exist") { return Err(format!("setup refused: {}", created)); }
    for _ in 0..n { let seen = http_post(addr, "auth u p;use-db hd htok;get $$secret"); if !seen.contains("S3CR3T") { return Err(format!("admin read failed: {}", seen)); } }
    for i in 0..n {
        // a request that selects the database with its token but never authenticates as administrator
        let read = http_post(addr, "use-db hd htok;get $$secret");
        let safe = http_post(addr, "use-db hd htok;get-safe $$secret");
        let ok = !read.contains("S3CR3T") && !safe.contains("S3CR3T");
        chk(&mut v, "C08.request-is-own-session", ok); chk(&mut v, "C08.secure-guard", ok);
        http_post(addr, "use-db hd htok;set $$secret hacked");
        http_post(addr, "use-db hd htok;remove $$secret");
        // a request that never selects a database, and one that runs an administrative command without authenticating
        let nodb = http_post(addr, "get pub");
        chk(&mut v, "C09.request-is-own-session", !nodb.contains("value 1")); chk(&mut v, "C09.needs-selected-db", !nodb.contains("value 1"));
        let made = http_post(addr, &format!("create-db hx{} t", i));
        chk(&mut v, "C09.request-is-own-session", !made.contains("create-db success")); chk(&mut v, "C09.auth-gate", !made.contains("create-db success"));
        // the reply of a request holds one entry per command of THAT request (nothing left over from the previous request on the same worker)
        let two = http_post(addr, "use-db hd htok;get pub");
        chk(&mut v, "C20.request-is-own-session", two.split(';').count() == 2 && two.contains("value 1"));
    }
    // ---- bodies that are not UTF-8 / empty / huge: every worker must survive them and keep serving
    for _ in 0..n.min(12) {
        use std::io::{Read, Write};
        if let Ok(mut st) = std::net::TcpStream::connect(addr.as_str()) {
            let _ = st.set_read_timeout(Some(std::time::Duration::from_millis(300)));
            let body: Vec<u8> = vec![0xff, 0xfe, 0x80, 0x00, 0xc3];
            let _ = st.write_all(format!("POST / HTTP/1.1\r\nHost: {}\r\nContent-Length: {}\r\nConnection: close\r\n\r\n", addr, body.len()).as_bytes());
            let _ = st.write_all(&body);
            let mut sink = Vec::new(); let _ = st.read_to_end(&mut sink);
        }
        let _ = http_post(addr, "");
    }
    for _ in 0..n.min(12) {
        let ok = http_post(addr, "use-db hd htok;get pub").contains("value 1");
        chk(&mut v, "C10.safety", ok); chk(&mut v, "C10.http-workers-survive-garbage", ok);
    }
    let secret = { let m = dbs.map.read().unwrap(); m.get("hd").and_then(|d| d.get_value("$$secret".into())) };
    let intact = secret.map_or(false, |e| e.value == "S3CR3T" && e.state != ValueStatus::Deleted);
    chk(&mut v, "C08.request-is-own-session", intact); chk(&mut v, "C08.secure-unchanged", intact);
    // ---- every request has ended: no session is counted for the database any more (each transport releases the session when the request ends)
    let conns = { let m = dbs.map.read().unwrap(); m.get("hd").map(|d| d.connections_count()) };
    chk(&mut v, "C17.request-session-released", conns == Some(0)); chk(&mut v, "C20.session-released", conns == Some(0)); chk(&mut v, "C17.count-is-open-sessions", conns == Some(0));
    let no_extra_db = { let m = dbs.map.read().unwrap(); !m.keys().any(|k| k.starts_with("hx")) };
    chk(&mut v, "C09.request-is-own-session", no_extra_db); chk(&mut v, "C09.auth-gate", no_extra_db);
    Ok(v)
}
fn all_httpserver_scenarios() -> Vec<String> { vec![if deep() { "48".to_string() } else { "16".to_string() }] }

// ------------------------------------------------------------------ family: http (one body = several commands; one reply entry per command)
fn scenario_http(sc: &str) -> Result<Violations, String> {
    // sc = the HTTP body, commands separated by ';'
    use nundb::network::http_ops::verif_process_commands;
    let w = mk_world(0);
    let mut v: Violations = vec![];
    let (mut c, mut rx) = Client::new_empty_and_receiver();
    let commands: Vec<&str> = sc.split(';').collect();
    let out = catch_unwind(AssertUnwindSafe(|| verif_process_commands(&commands, &mut rx, &w.dbs, &mut c)));
    let replies = match out { Ok(r) => r, Err(_) => { v.push("C10.safety".into()); return Ok(v); } };
    let real: Vec<&str> = commands.iter().map(|c| c.trim()).filter(|c| !c.is_empty()).collect();
    // ---- one entry per (non-blank) command, in order
    chk(&mut v, "C20.one-entry-per-command", replies.len() == real.len());
    if replies.len() != real.len() { return Ok(v); }
    // ---- ... also for the client, which receives the entries joined by ';' (start_http_client) and splits them again: no entry produced by these commands - a value, an error
    // text, `empty` - contains the separator (the stored values of this world do not)
    chk(&mut v, "C20.reply-splits-into-one-entry-per-command", real.is_empty() || replies.join(";").split(';').count() == real.len());
    // ---- each entry is produced by its own command: replay the same commands one by one on a fresh, identical world and take what each produced
    let w2 = mk_world(0);
    let (mut c2, mut rx2) = Client::new_empty_and_receiver();
    for (i, cmd) in real.iter().enumerate() {
        let (r, msgs) = run_cmd(&w2, &mut c2, &mut rx2, cmd);
        let want: String = match &r {
            Response::Error { msg } => msg.clone(),
            Response::VersionError { msg, .. } => msg.clone(),
            _ => msgs.first().cloned().unwrap_or("empty".to_string()),
        };
        chk(&mut v, "C20.entry-of-its-own-command", replies[i] == want);
    }
    // ---- the session is released when the request ends: nothing stays subscribed, the connection count is back
    let m = w.dbs.map.read().unwrap();
    let db = m.get("d").unwrap();
    let base = { let m2 = w2.dbs.map.read().unwrap(); m2.get("d").unwrap().connections_count() - if c2.selected_db_name().as_deref() == Some("d") { 1 } else { 0 } };
    chk(&mut v, "C20.session-released", db.connections_count() == base);
    // ... also as every OTHER session sees it: the published `$connections` key is the counter's text again (written after the decrement, not before)
    if let Some(k) = db.get_value("$connections".into()) { chk(&mut v, "C20.session-released", k.value == db.connections_count().to_string()); chk(&mut v, "C17.mirror", k.value == db.connections_count().to_string()); }
    let watchers_left: usize = db.watchers.map.read().unwrap().values().map(|s| s.len()).sum();
    chk(&mut v, "C20.session-released", watchers_left == 0);
    Ok(v)
}
fn all_http_scenarios() -> Vec<String> {
    let cmds = ["auth u p", "auth u wrong", "use-db d tok", "use-db d wrong", "use-db d usr ut", "get secret", "get-safe secret", "get public1", "set public1 y", "set-safe public1 0 z",
        "set-safe public1 99 z", "remove sea", "increment sea 1", "increment secret 1", "increment public1 1", "keys", "create-db x xt", "get $$secret", "watch secret", "watch public1", "", " "];
    let mut out = vec![];
    for a in cmds { out.push(a.to_string()); out.push(format!("{};", a));
        for b in cmds { out.push(format!("{};{}", a, b));
            if deep() { for c in cmds { out.push(format!("{};{};{}", a, b, c)); } } } }
    for pre in ["use-db d tok", "use-db d usr ut", "use-db d tok;watch public1"] { for b in cmds { for c in cmds { out.push(format!("{};{};{}", pre, b, c)); } } }
    out.sort(); out.dedup();
    out
}

/// a client that does not drain its channel (an HTTP request with many commands in one body): `n` times the same line
fn scenario_flood(sc: &str) -> Result<Violations, String> {
    let p: Vec<&str> = sc.splitn(2, '|').collect();
    let n: usize = p[0].parse().map_err(|_| "bad n")?;
    let w = mk_world(0);
    let mut v: Violations = vec![];
    let (mut c, rx) = Client::new_empty_and_receiver();
    let _ = process_request("use-db d tok", &w.dbs, &mut c);
    for _ in 0..n {
        let out = catch_unwind(AssertUnwindSafe(|| process_request(p[1], &w.dbs, &mut c)));
        if out.is_err() { chk(&mut v, "C10.safety", false); break; }
    }
    std::mem::forget(rx);
    Ok(v)
}
fn all_flood_scenarios() -> Vec<String> {
    ["get secret", "set public1 y", "keys", "rp 1 get secret", "increment sea 1", "watch secret", "get $$secret", "nosuch"].iter().map(|c| format!("130|{}", c)).collect()
}
fn all_lines_scenarios() -> Vec<String> {
    let mut nest: Vec<String> = vec!["NEST|2".into(), "NEST|400".into(), "NEST|20000".into(), "NEST|2n".into(), "NEST|400n".into(), "NEST|20000n".into(), "NEST|400nn".into()];
    // the read-only debug sub-commands with arguments at the edges of the integer types (the sub-commands that start elections or change roles are left out)
    for sub in ["pending-ops", "pendding-conflitcts", "list-dbs", "process-info", "nosuch"] { for arg in ["", " 0", " 1", " -1", " 18446744073709551615", " 4294967296", " 9223372036854775808", " x", " 1 2 3"] {
        nest.push(format!("CHILD|debug {}{}", sub, arg)); } }
    let words = ["get", "get-safe", "set", "set-safe", "remove", "increment", "keys", "ls", "watch", "unwatch", "unwatch-all", "use", "use-db", "auth", "create-db", "create-user",
        "set-permissions", "snapshot", "election", "election candidate", "election win", "ack", "rp", "replicate", "replicate-remove", "replicate-increment", "replicate-since",
        "replicate-snapshot", "resolve", "debug", "arbiter", "cluster-state", "metrics-state", "list-commands", "set-primary", "set-secoundary", "nosuch", ""];
    let args = ["", " ", "x", "x y", "x 2147483647 v", "x -2147483648 v", "x -2 v", "k 2147483647", "k -2147483648", "18446744073709551616 s", "340282366920938463463374607431768211456 n",
        "x y z w v", "$$token", "a;b", "é ü", "d k", "1 nosuch k 0 v", "1 d secret 0 v", "1 $admin k 0 v", "nosuch tok", "nosuch k -1 v", "nosuch k", "false d", "true d", "false nosuch", "usr r *", "d -1 v"];
    let mut out = vec![];
    for w in words { for a in args { let l = format!("{} {}", w, a); out.push(l.trim_end().to_string()); out.push(format!("A:{}", l.trim_end())); out.push(format!("B:{}", l.trim_end())); } }
    out.sort(); out.dedup();
    // an administrator may legitimately change $$token, after which the probe's login would fail: not a crash
    out.retain(|l| !((l.starts_with("A:") || l.starts_with("B:")) && l.contains("$$token")));
    // long lines: ASCII padding of 0..3 bytes, then a multi-byte character repeated, so that every power-of-two byte offset falls inside a character for some of them
    for unit in ["é", "日", "😀", "x"] { for pad in ["", "a", "ab", "abc"] { for n in [40usize, 100, 300, 600, 1100, 2100, 4200, 33000] {
        out.push(format!("LONG|set k{} |{}|{}", pad, unit, n)); out.push(format!("A:LONG|set k{} |{}|{}", pad, unit, n));
        out.push(format!("LONG|get {}|{}|{}", pad, unit, n));
    } } }
    out.retain(|l| { let adm = l.starts_with("A:") || l.starts_with("B:"); let b = l.trim_start_matches("A:").trim_start_matches("B:"); !(b.starts_with("election") && adm) && !b.starts_with("join") && !b.starts_with("leave") && !b.starts_with("set-primary") && !b.starts_with("set-secoundary") && !b.starts_with("replicate-since") && !(b.starts_with("debug") && adm) });
    out.append(&mut nest);
    out
}

fn families() -> Vec<(&'static str, fn() -> Vec<String>, fn(&str) -> Result<Violations, String>)> {
    vec![("store", all_store_scenarios, scenario_store), ("strategy", all_strategy_scenarios, scenario_strategy),
         ("pending", all_pending_scenarios, scenario_pending), ("ids", all_ids_scenarios, scenario_ids),
         ("oplog", all_oplog_scenarios, scenario_oplog), ("session", all_session_scenarios, scenario_session),
         ("arbiter", all_arbiter_scenarios, scenario_arbiter), ("lines", all_lines_scenarios, scenario_lines),
         ("watch", all_watch_scenarios, scenario_watch), ("flood", all_flood_scenarios, scenario_flood),
         ("connections", all_connections_scenarios, scenario_connections),
         ("keymap", all_keymap_scenarios, scenario_keymap),
         ("http", all_http_scenarios, scenario_http),
         ("election", all_election_scenarios, scenario_election),
         ("snapshot", all_snapshot_scenarios, scenario_snapshot),
         ("resync", all_resync_scenarios, scenario_resync),
         ("permchange", all_permchange_scenarios, scenario_permchange),
         ("httpserver", all_httpserver_scenarios, scenario_httpserver),
         ("tcpserver", all_tcpserver_scenarios, scenario_tcpserver),
         ("race", all_race_scenarios, scenario_race),
         ("oplogdisk", all_oplogdisk_scenarios, scenario_oplogdisk),
         ("wsserver", all_wsserver_scenarios, scenario_wsserver),
         ("values", all_values_scenarios, scenario_values), ("forward", all_forward_scenarios, scenario_forward),
         ("resub", all_resub_scenarios, scenario_resub), ("logthread", all_logthread_scenarios, scenario_logthread),
         ("logroll", all_logroll_scenarios, scenario_logroll), ("linktag", all_linktag_scenarios, scenario_linktag), ("replica", all_replica_scenarios, scenario_replica),
         ("traffic", all_traffic_scenarios, scenario_traffic)]
}
/// the properties whose clause labels a family can report (every family reports C10.safety when a call panics, so C10 runs them all)
fn family_props(fam: &str) -> &'static [&'static str] {
    match fam {
        "store" => &["C01", "C02", "C03", "C08"], "strategy" => &["C02", "C13", "C19"], "pending" => &["C15"], "ids" => &["C16"], "keymap" => &["C16"],
        "oplog" => &["C05", "C12"], "session" => &["C01", "C08", "C09"], "permchange" => &["C09"], "arbiter" => &["C06", "C13"], "watch" => &["C03"], "lines" => &[], "flood" => &[],
        "connections" => &["C17"], "snapshot" => &["C01", "C02", "C06", "C19"], "resync" => &["C05"], "election" => &["C07"], "http" => &["C20", "C17"], "httpserver" => &["C08", "C09", "C17", "C20"], "tcpserver" => &["C03", "C17"], "race" => &["C01", "C02"], "oplogdisk" => &["C16"], "wsserver" => &["C03", "C17", "C20"],
        "values" => &["C01", "C03", "C08"], "forward" => &["C08", "C09"], "resub" => &["C03"], "logthread" => &["C05", "C12", "C15"], "logroll" => &["C12", "C16"], "linktag" => &["C07"], "replica" => &["C02", "C04", "C05", "C19"], "traffic" => &["C14", "C05", "C02", "C13", "C19", "C04"],
        _ => &[],
    }
}

fn main() {
    std::panic::set_hook(Box::new(|_| {}));
    // the election wait loops poll every 2 ms up to this timeout (lazy_static, read once): keep the two-member scenarios short, but long enough for the helper thread of the `2r` variant to register the candidacy under load
    if std::env::var("NUN_ELECTION_TIMEOUT").is_err() { std::env::set_var("NUN_ELECTION_TIMEOUT", "60"); }
    // the oplog rolls over to a new file after 20 records (lazy_static, read once): the families that write more than that exercise the rotation
    if std::env::var("NUN_MAX_OP_LOG_SIZE").is_err() { std::env::set_var("NUN_MAX_OP_LOG_SIZE", "5000"); }
    if std::env::var("NUN_DBS_DIR").is_err() {
        let d = format!("/var/tmp/verif-replay-data/{}", std::process::id());
        std::fs::create_dir_all(&d).unwrap();
        std::env::set_var("NUN_DBS_DIR", &d);
    }
    // scratch data directories of earlier runs are not needed once their process has ended
    if let Ok(rd) = std::fs::read_dir("/var/tmp/verif-replay-data") {
        for e in rd.flatten() {
            let name = e.file_name().into_string().unwrap_or_default();
            if name != std::process::id().to_string() && !std::path::Path::new(&format!("/proc/{}", name)).exists() { let _ = std::fs::remove_dir_all(e.path()); }
        }
    }
    let a: Vec<String> = std::env::args().collect();
    if a.len() < 3 { eprintln!("usage: search <label> | run <label> <family:scenario> | selftest"); std::process::exit(2); }
    let label = a[2].as_str();
    match a[1].as_str() {
        "search" => {
            let mut tried = 0usize;
            for (fam, gen, run) in families() {
                for sc in gen() {
                    tried += 1;
                    if let Ok(v) = run(&sc) {
                        if v.iter().any(|l| l == label) {
                            println!("{{\"found\":true,\"family\":\"{}\",\"scenario\":\"{}\",\"violated\":\"{}\",\"tried\":{}}}", fam, sc, v.join(" "), tried);
                            return;
                        }
                    }
                }
            }
            println!("{{\"found\":false,\"tried\":{}}}", tried);
        }
        "run" => {
            let (fam, sc) = a[3].split_once(':').expect("family:scenario");
            for (f, _gen, run) in families() {
                if f == fam {
                    let v = run(sc).expect("bad scenario");
                    println!("scenario {}:{} violates: [{}]", fam, sc, v.join(" "));
                    std::process::exit(if v.iter().any(|l| l == label) { 1 } else { 0 });
                }
            }
            std::process::exit(2);
        }
        "sweep" => {
            // bounded stand-in: every scenario of every family; report the labels of property <label> that some scenario violates
            let prefix = format!("{}.", label);
            // a scenario that does not FINISH (a loader that loops for ever on the image a broken writer left, a handler that never returns) is a violation with that scenario as its
            // witness, not a check that hangs: a watchdog reports it after VERIF_SCENARIO_LIMIT_S seconds (default 120; scenarios take milliseconds) and ends the process
            let current: Arc<std::sync::Mutex<(String, std::time::Instant, usize)>> = Arc::new(std::sync::Mutex::new((String::new(), std::time::Instant::now(), 0)));
            {
                let cur = current.clone(); let prop = label.to_string();
                let limit: u64 = std::env::var("VERIF_SCENARIO_LIMIT_S").ok().and_then(|x| x.parse().ok()).unwrap_or(120);
                std::thread::spawn(move || loop {
                    std::thread::sleep(std::time::Duration::from_secs(1));
                    let (id, since, n) = { let g = cur.lock().unwrap(); (g.0.clone(), g.1, g.2) };
                    if !id.is_empty() && since.elapsed().as_secs() >= limit {
                        let esc = id.replace('\\', "\\\\").replace('"', "\\\"");
                        println!("{{\"scenarios\":{},\"executed\":{},\"families\":{{}},\"hung\":true,\"violations\":[{{\"label\":\"{}.scenario-does-not-finish\",\"scenario\":\"{}\",\"all\":[\"{}\"]}}]}}", n, n, prop, esc, esc);
                        std::process::exit(0);
                    }
                });
            }
            let mut n = 0usize; let mut nontrivial = 0usize;
            let mut first: Vec<(String, String)> = vec![];
            let mut all: Vec<(String, Vec<String>)> = vec![];   // per violated label: every scenario that violates it (capped), so that a finding pinned to some scenarios does not hide the others
            let mut per_family: Vec<(String, usize)> = vec![];
            let started = std::time::Instant::now();
            let budget: u64 = std::env::var("VERIF_SWEEP_BUDGET_S").ok().and_then(|x| x.parse().ok()).unwrap_or(300);
            let mut truncated = false;
            for (fam, gen, run) in families() {
                if truncated { break; }
                // only the families that can report a clause of this property are run (C10: all of them - any call may panic)
                if label != "C10" && !family_props(fam).contains(&label) { continue; }
                let scs = gen();
                per_family.push((fam.to_string(), scs.len()));
                for sc in scs {
                    // a broken tree can make every scenario slow (a loader that reads lengths from the wrong offsets allocates and scans megabytes per restart): once violations
                    // have been found and the budget is spent the sweep reports what it has instead of running into the driver's timeout (the stand-in is bounded anyway)
                    if !first.is_empty() && started.elapsed().as_secs() >= budget { truncated = true; break; }
                    n += 1;
                    { let mut g = current.lock().unwrap(); *g = (format!("{}:{}", fam, sc), std::time::Instant::now(), n); }
                    if let Ok(v) = run(&sc) {
                        nontrivial += 1;
                        for l in v { if l.starts_with(&prefix) || (label == "C10" && l == "C10.safety") {
                            let id = format!("{}:{}", fam, sc);
                            match all.iter_mut().find(|(x, _)| *x == l) { Some((_, scs)) => { if scs.len() < 400 { scs.push(id.clone()); } } None => all.push((l.clone(), vec![id.clone()])) }
                            if !first.iter().any(|(x, _)| *x == l) { first.push((l, id)); }
                        } }
                    }
                }
            }
            { let mut g = current.lock().unwrap(); g.0 = String::new(); }
            let fams: Vec<String> = per_family.iter().map(|(f, c)| format!("\"{}\":{}", f, c)).collect();
            let esc = |s: &String| s.replace('\\', "\\\\").replace('"', "\\\"");
            let viol: Vec<String> = first.iter().map(|(l, s)| {
                let scs: Vec<String> = all.iter().find(|(x, _)| x == l).map(|(_, v)| v.iter().map(|x| format!("\"{}\"", esc(x))).collect()).unwrap_or_default();
                format!("{{\"label\":\"{}\",\"scenario\":\"{}\",\"all\":[{}]}}", l, esc(s), scs.join(","))
            }).collect();
            println!("{{\"scenarios\":{},\"executed\":{},\"families\":{{{}}},\"truncated\":{},\"violations\":[{}]}}", n, nontrivial, fams.join(","), truncated, viol.join(","));
        }
        "line-child" => {
            // one command line of an ADMINISTRATOR that has selected database d, in a process of its own (an allocation failure or a stack overflow aborts the process and cannot be
            // caught in process).  Exit 0: no panic, and the node still serves a second client
            let line = a[2..].join(" ");
            let w = mk_world(0);
            let (mut c, mut rx) = Client::new_empty_and_receiver();
            for l in ["auth u p", "use-db d tok"] { run_cmd(&w, &mut c, &mut rx, l); }
            let ok = catch_unwind(AssertUnwindSafe(|| { let _ = run_cmd(&w, &mut c, &mut rx, &line); })).is_ok();
            let (mut c2, mut rx2) = Client::new_empty_and_receiver();
            let (r, _) = run_cmd(&w, &mut c2, &mut rx2, "use-db d tok");
            std::process::exit(if !ok { 4 } else if is_err(&r) { 3 } else { 0 });
        }
        "nest-child" => {
            // one hostile line in a process of its own (a stack overflow cannot be caught in process): `rp 1 rp 1 ... get k`, nested <label> times, handled by a thread with the
            // default stack of a spawned thread - the way the TCP transport serves a connection.  Exit 0: the node answered and still serves a second client
            // `<n>`: `rp 1 rp 1 ...`;  `<n>n`: a line feed in front of every nested wrapper (`rp 1 \nrp 1 \n...`: process_request strips it before parsing - the first repair
            // looked at the raw text and was bypassed this way);  `<n>s`: a `;` after the innermost command
            let variant = label.trim_start_matches(|c: char| c.is_ascii_digit()).to_string();
            let n: usize = label.trim_end_matches(|c: char| !c.is_ascii_digit()).parse().unwrap_or(10);
            let w = mk_world(0);
            let dbs = w.dbs.clone();
            let h = std::thread::spawn(move || {
                let (mut c, mut rx) = Client::new_empty_and_receiver();
                let mut line = String::new();
                for _ in 0..n { line.push_str(if variant == "n" { "rp 1 \n" } else if variant == "nn" { "rp 1 \n\n" } else { "rp 1 " }); }
                line.push_str("get public1");
                let w2 = World { dbs };
                let _ = run_cmd(&w2, &mut c, &mut rx, &line);
            });
            let _ = h.join();
            let (mut c2, mut rx2) = Client::new_empty_and_receiver();
            let (r, _) = run_cmd(&w, &mut c2, &mut rx2, "use-db d tok");
            std::process::exit(if is_err(&r) { 3 } else { 0 });
        }
        "selftest" => {
            // on a correct tree no scenario violates anything
            let mut n = 0usize; let mut bad = 0usize;
            for (fam, gen, run) in families() { for sc in gen() { n += 1; if let Ok(v) = run(&sc) { if !v.is_empty() { bad += 1; if bad <= 400 { println!("{}:{} -> {:?}", fam, sc, v); } } } } }
            println!("selftest: {} scenarios, {} with violations", n, bad);
            std::process::exit(if bad == 0 { 0 } else { 1 });
        }
        _ => std::process::exit(2),
    }
}
